#!/bin/bash
# Offline setup: nothing to build (pure Python run by /venv/bin/python); just verify the toolchain.
set -e
cd "$(dirname "$(readlink -f "$0")")"
mkdir -p evidence replays
/venv/bin/python -c "import sys; sys.path.insert(0, '/repo'); import formulas, schedula, numpy, openpyxl, dill; print('setup ok', formulas.__file__)"
