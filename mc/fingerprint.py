"""Deep canonical form of live objects (state hashing for explicit-state search).
Over-fine by design: two states are merged only if every reachable mutable datum
is equal (DESIGN.md 2.2)."""
import collections, functools, hashlib, types
import numpy as np


def canon(o, memo=None):
    if memo is None:
        memo = {}
    if isinstance(o, (int, float, str, bool, type(None), bytes, complex)):
        return (type(o).__name__, repr(o))
    if isinstance(o, np.generic):
        return ('npg', repr(o.item()))
    i = id(o)
    if i in memo:
        return ('ref', memo[i])
    memo[i] = len(memo)
    memo.setdefault('keep', []).append(o)     # a freed temporary must not lend its address to a later object
    if isinstance(o, np.ndarray):
        return ('nd', type(o).__name__, o.shape, tuple(canon(x, memo) for x in o.ravel().tolist()), canon(getattr(o, '__dict__', None), memo))
    if isinstance(o, dict):
        return ('dict', tuple(sorted(((canon(k, memo), canon(v, memo)) for k, v in o.items()), key=repr)))
    if isinstance(o, (list, tuple, collections.deque)):
        return (type(o).__name__, tuple(canon(x, memo) for x in o))
    if isinstance(o, (set, frozenset)):
        # traverse in an address-independent order (sets of tokens/functions iterate by id)
        return ('set', tuple(canon(x, memo) for x in sorted(o, key=lambda x: (type(x).__name__, str(x)))))
    if isinstance(o, functools.partial):
        return ('partial', canon(o.func, memo), canon(o.args, memo), canon(o.keywords, memo))
    if isinstance(o, (types.FunctionType, types.BuiltinFunctionType, types.MethodType, type)):
        return ('fn', getattr(o, '__qualname__', repr(o)))
    if isinstance(o, types.ModuleType):
        return ('mod', o.__name__)
    sl = [s for c in type(o).__mro__ for s in getattr(c, '__slots__', ())]
    d = getattr(o, '__dict__', None)
    if d is not None:
        return ('obj', type(o).__name__, canon({k: v for k, v in d.items() if k not in ('_executors', 'executor')}, memo),
                tuple((s, canon(getattr(o, s, None), memo)) for s in sl if s not in ('__dict__', '__weakref__')))
    if sl:
        return ('slots', type(o).__name__, tuple((s, canon(getattr(o, s, None), memo)) for s in sl))
    return ('opaque', type(o).__name__)


def fingerprint(*objs):
    return hashlib.sha1(repr(tuple(canon(o) for o in objs)).encode()).hexdigest()[:16]


def mutable_ids(o, memo=None, out=None):
    """ids of all mutable containers reachable from o (for independence checks)."""
    if memo is None:
        memo, out = set(), {}
    if isinstance(o, (int, float, str, bool, type(None), bytes, complex, np.generic, types.FunctionType, types.BuiltinFunctionType,
                      types.MethodType, type, types.ModuleType)):
        return out
    i = id(o)
    if i in memo:
        return out
    memo.add(i)
    if isinstance(o, np.ndarray):
        out[i] = 'ndarray'
        if o.dtype == object:
            for x in o.ravel().tolist():
                mutable_ids(x, memo, out)
        return out
    if isinstance(o, dict):
        out[i] = 'dict'
        for k, v in o.items():
            mutable_ids(k, memo, out)
            mutable_ids(v, memo, out)
        return out
    if isinstance(o, (list, set, collections.deque)):
        out[i] = type(o).__name__
        for x in o:
            mutable_ids(x, memo, out)
        return out
    if isinstance(o, (tuple, frozenset)):
        for x in o:
            mutable_ids(x, memo, out)
        return out
    if isinstance(o, functools.partial):
        for x in (o.func, o.args, o.keywords):
            mutable_ids(x, memo, out)
        return out
    d = getattr(o, '__dict__', None)
    sl = [s for c in type(o).__mro__ for s in getattr(c, '__slots__', ())]
    if d is not None or sl:
        out[i] = type(o).__name__
        if d is not None:
            mutable_ids(d, memo, out)
        for s in sl:
            mutable_ids(getattr(o, s, None), memo, out)
    return out
