"""Framework core: repo binding, fork pool, result aggregation, evidence,
known findings, replay files.  See DESIGN.md section 2 and 4."""
import os, sys, json, time, hashlib, collections, subprocess, itertools, traceback
import multiprocessing as mp

VERIF = os.path.dirname(os.path.dirname(os.path.abspath(__file__)))
REPO = os.environ.get('VERIF_REPO', '/repo')
NPROC = int(os.environ.get('VERIF_NPROC', '16'))


def bind_repo():
    """Import formulas from the working tree under test and nowhere else."""
    if sys.path[0] != REPO:
        sys.path.insert(0, REPO)
    import logging, warnings
    logging.disable(logging.CRITICAL)
    warnings.simplefilter('ignore')
    import formulas
    here = os.path.realpath(os.path.dirname(formulas.__file__))
    want = os.path.realpath(os.path.join(REPO, 'formulas'))
    if here != want:
        sys.stderr.write('HARNESS-ERROR formulas imported from %s, wanted %s\n' % (here, want))
        sys.exit(2)
    return formulas


def key_of(case):
    return json.dumps(case, sort_keys=True, default=str, ensure_ascii=True)


def short_hash(s):
    return hashlib.sha1(s.encode()).hexdigest()[:12]


class Fail(dict):
    """A failed expectation.  cls: failure class (stable, coarse);
    fields: flat dict used by known-finding predicates; got/exp: what was seen."""

    def __init__(self, cls, got=None, exp=None, **fields):
        super().__init__(cls=cls, got=_r(got), exp=_r(exp),
                         fields={k: (v if isinstance(v, (int, bool, type(None))) else str(v)) for k, v in fields.items()})


def _r(x):
    if x is None or isinstance(x, (int, float, bool, str)):
        return x
    return repr(x)


def result(execs=1, outcomes=(), fails=(), states=None):
    return {'execs': execs, 'outcomes': list(outcomes), 'fails': list(fails), 'states': states}


_FN = None


def _work(chunk):
    out = []
    for case in chunk:
        try:
            r = _FN(case)
        except BaseException as e:  # the harness itself broke: never a silent pass
            if isinstance(e, KeyboardInterrupt):
                raise
            r = result(0, ['HARNESS-EXC'], [Fail('harness-exception', got=traceback.format_exc()[-1500:])])
        out.append((case, r))
    return out


def chunks(it, n):
    it = iter(it)
    while True:
        c = list(itertools.islice(it, n))
        if not c:
            return
        yield c


def pmap(fn, cases, chunksize=64, nproc=None):
    """Run fn(case) for every case on a fork pool; yields (case, result)."""
    global _FN
    _FN = fn
    limited = nproc is not None
    nproc = nproc or NPROC
    if nproc <= 1:
        for c in chunks(cases, chunksize):
            yield from _work(c)
        return
    ctx = mp.get_context('fork')
    # an explicit nproc marks a memory-bound space (whole-column workbooks): every chunk gets a fresh child, so nothing a case
    # leaves behind (caches, uncollected cycles holding 1048576-row arrays) adds up inside a worker
    with ctx.Pool(nproc, maxtasksperchild=1 if limited else None) as pool:
        for part in pool.imap_unordered(_work, chunks(cases, chunksize)):
            yield from part


class Ctx:
    def __init__(self, prop, tier, seed, level='model_checking'):
        self.prop, self.tier, self.seed, self.level = prop, tier, seed, level
        self.t0 = time.time()
        self.evaluations = 0
        self.transitions = 0
        self.keys = set()
        self.nontrivial = set()
        self.outcomes = collections.Counter()
        self.fails = []          # (case, Fail)
        self.samples = []
        self.extra = {}
        self.assumptions = []
        self.exhaustive = True
        self.notes = []
        self.nfail_total = 0

    # -- exploration -------------------------------------------------------
    def explore(self, fn, cases, chunksize=64, label=None, trivial=None, nproc=None):
        """Run every case; aggregate.  trivial(outcomes)->bool marks cases that
        do not count as non-trivial (default: cases whose only outcome is 'skip')."""
        n0 = self.evaluations
        for case, r in pmap(fn, cases, chunksize, nproc):
            self.add(case, r, label, trivial)
        if label:
            self.extra.setdefault('spaces', {})[label] = self.evaluations - n0
        return self.evaluations - n0

    def add(self, case, r, label=None, trivial=None):
        self.evaluations += 1
        self.transitions += r['execs']
        k = short_hash(key_of(case))
        self.keys.add(k)
        oc = r['outcomes']
        for o in oc:
            self.outcomes[o] += 1
        triv = trivial(oc) if trivial else (not oc or all(o.startswith('skip') for o in oc))
        if not triv:
            self.nontrivial.add(k)
        if len(self.samples) < 3 or (self.evaluations % 9973 == 0 and len(self.samples) < 12):
            self.samples.append({'case': case, 'outcomes': oc[:6]})
        for f in r['fails']:
            self.nfail_total += 1
            if len(self.fails) < 200000:
                self.fails.append((case, f))

    def fail(self, case, f):
        self.nfail_total += 1
        self.fails.append((case, f))

    # -- finish ------------------------------------------------------------
    def finish(self, mod, **coverage):
        from . import findings
        known, unknown = findings.split(self.prop, self.fails)
        exit_code = 0
        if os.environ.get('VERIF_DUMP'):
            os.makedirs(os.path.join(VERIF, 'scratch'), exist_ok=True)
            with open(os.path.join(VERIF, 'scratch', '%s-fails.jsonl' % self.prop), 'w') as fh:
                for case, f in self.fails:
                    fh.write(json.dumps({'case': case, 'f': f}, default=str) + '\n')
        for fid, what, n in known:
            print('KNOWN-FINDING: property=%s %s [%s, %d case(s) this run]' % (self.prop, what, fid, n))
        confirmed = []
        if unknown:
            confirmed = confirm(self.prop, unknown, self)
        for path, case, f in confirmed:
            print('VIOLATION property=%s replay=%s' % (self.prop, path))
            print('  class=%s got=%s expected=%s' % (f['cls'], str(f['got'])[:300], str(f['exp'])[:300]))
            print('  case=%s' % key_of(case)[:600])
            exit_code = 1
        cov = {
            'states': len(self.keys),
            'transitions': max(self.transitions, 0),
            'traces_validated_against_impl': self.transitions,
            'evaluations': self.evaluations,
            'distinct_nontrivial': len(self.nontrivial),
            'rule': getattr(mod, 'RULE', ''),
            'samples': self.samples[:12],
            'exhaustive': self.exhaustive,
            'outcome_classes': dict(self.outcomes.most_common(60)),
            'distinct_outcome_classes': len(self.outcomes),
            'failing_cases_total': self.nfail_total,
            'known_findings_matched': {fid: n for fid, what, n in known},
            'unknown_failure_classes': sorted({f['cls'] for _, f in unknown})[:40],
            'notes': self.notes,
        }
        cov.update(self.extra)
        cov.update(coverage)
        ev = {
            'property_id': self.prop, 'tier': self.tier, 'seed': self.seed,
            'level': self.level, 'coverage': cov,
            'assumptions': list(getattr(mod, 'ASSUMPTIONS', [])) + self.assumptions,
            'wall_s': round(time.time() - self.t0, 2),
            'violations': len(confirmed),
        }
        validate_evidence(ev)
        # evidence/ only ever describes runs against /repo itself; runs against a scratch copy go to scratch/
        evdir = os.path.join(VERIF, 'evidence') if os.path.realpath(REPO) == '/repo' else os.path.join(VERIF, 'scratch', 'evidence-other-repo')
        os.makedirs(evdir, exist_ok=True)
        p = os.path.join(evdir, '%s.json' % self.prop)
        with open(p + '.tmp', 'w') as fh:
            json.dump(ev, fh, indent=1, sort_keys=True, default=str)
        os.replace(p + '.tmp', p)
        print('%s %s: states=%d transitions=%d cases=%d nontrivial=%d outcome_classes=%d failing=%d known=%d violations=%d wall=%.1fs' % (
            self.prop, self.tier, len(self.keys), self.transitions, self.evaluations, len(self.nontrivial),
            len(self.outcomes), self.nfail_total, sum(n for _, _, n in known), len(confirmed), time.time() - self.t0))
        return exit_code


def validate_evidence(ev):
    for k in ('property_id', 'tier', 'seed', 'level', 'coverage', 'wall_s'):
        assert k in ev, k
    c = ev['coverage']
    assert isinstance(ev['seed'], int)
    assert c['states'] >= 1 and c['transitions'] >= 1 and c['samples'], 'vacuous run'
    assert c['evaluations'] >= 1 and c['distinct_nontrivial'] >= 2, 'vacuous run'


def write_replay(prop, case, f):
    d = os.path.join(VERIF, 'replays')
    os.makedirs(d, exist_ok=True)
    k = short_hash(key_of(case) + f['cls'])
    p = os.path.join(d, '%s-%s.json' % (prop, k))
    with open(p, 'w') as fh:
        json.dump({'property': prop, 'case': case, 'failure': f,
                   'hashseed': os.environ.get('PYTHONHASHSEED'),
                   'how': './check %s --replay %s' % (prop, p)}, fh, indent=1, default=str)
    # the same case as a plain unit test (no explorer, no pool): /venv/bin/python -m pytest <file>
    with open(os.path.join(d, 'test_%s_%s.py' % (prop, k)), 'w') as fh:
        fh.write('''import json, os, sys
sys.path.insert(0, %r)
# runs against /repo unless VERIF_REPO names another tree
from mc import core
core.bind_repo()
from checks import %s as check

CASE = json.loads(%r)


def test_property_%s_holds_on_recorded_case():
    r = (getattr(check, 'replay', None) or check.run_case)(CASE)
    assert not r['fails'], r['fails']
''' % (VERIF, prop.lower(), json.dumps(case, default=str), prop))
    return p


def confirm(prop, unknown, ctx, max_report=8):
    """Replay each candidate twice in fresh interpreters; only reproduced
    failures are violations.  One representative per failure class."""
    by_cls = collections.OrderedDict()
    for case, f in sorted(unknown, key=lambda cf: (cf[1]['cls'], len(key_of(cf[0])), key_of(cf[0]))):
        by_cls.setdefault(f['cls'], []).append((case, f))
    out = []
    for cls, items in by_cls.items():
        if len(out) >= max_report:
            break
        for case, f in items[:3]:
            path = write_replay(prop, case, f)
            ok = True
            for _ in range(2):
                env = dict(os.environ)
                r = subprocess.run([os.path.join(VERIF, 'check'), prop, '--replay', path, '--expect', cls],
                                   capture_output=True, text=True, env=env, timeout=1800)
                if 'REPRODUCED' not in r.stdout:
                    ok = False
                    sys.stderr.write('HARNESS-NONDETERMINISM property=%s class=%s replay=%s did not reproduce\n%s\n%s\n' % (
                        prop, cls, path, r.stdout[-800:], r.stderr[-800:]))
                    ctx.notes.append('HARNESS-NONDETERMINISM %s %s' % (cls, path))
                    break
            if ok:
                out.append((path, case, f))
                break
    return out
