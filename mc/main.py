import sys, os, json, importlib
from . import core


def main(argv):
    if len(argv) < 2:
        print('usage: ./check <ID> quick|thorough | ./check <ID> --replay <file>')
        return 2
    prop = argv[0].upper()
    core.bind_repo()
    mod = importlib.import_module('checks.%s' % prop.lower())
    seed = int(os.environ.get('VERIF_SEED', '0') or 0)
    if argv[1] == '--replay':
        with open(argv[2]) as fh:
            rec = json.load(fh)
        expect = argv[argv.index('--expect') + 1] if '--expect' in argv else None
        fn = getattr(mod, 'replay', None) or mod.run_case
        r = fn(rec['case'])
        print('case: %s' % core.key_of(rec['case']))
        print('outcomes: %s' % r['outcomes'][:20])
        bad = 0
        from . import findings
        known, unknown = findings.split(prop, [(rec['case'], f) for f in r['fails']])
        for f in r['fails']:
            print('FAIL class=%s got=%s expected=%s fields=%s' % (f['cls'], f['got'], f['exp'], f['fields']))
            if expect is None or f['cls'] == expect:
                bad = 1
        if bad:
            print('REPRODUCED')
            if unknown or expect:
                print('VIOLATION property=%s replay=%s' % (prop, os.path.abspath(argv[2])))
                return 1
            return 0
        print('NOT-REPRODUCED (property held on this case)')
        return 0
    tier = argv[1] if argv[1] in ('quick', 'thorough') else os.environ.get('VERIF_TIER', 'quick')
    ctx = core.Ctx(prop, tier, seed, getattr(mod, 'LEVEL', 'model_checking'))
    cov = mod.run(ctx) or {}
    return ctx.finish(mod, **cov)


if __name__ == '__main__':
    sys.exit(main(sys.argv[1:]))
