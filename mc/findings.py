"""Known findings (committed file, never written at run time)."""
import os, json, re, collections
from .core import VERIF, key_of

PATH = os.path.join(VERIF, 'known_findings.json')


def load(prop):
    if not os.path.exists(PATH):
        return []
    with open(PATH) as fh:
        data = json.load(fh)
    return [f for f in data.get('findings', []) if f['property'] == prop and f.get('status', 'open') == 'open']


def _m(pat, val):
    if isinstance(pat, list):
        return any(_m(p, val) for p in pat)
    if isinstance(pat, str) and pat.startswith('re:'):
        return val is not None and re.fullmatch(pat[3:], str(val), re.S) is not None
    if isinstance(pat, bool) or isinstance(val, bool):
        return pat is val or str(pat) == str(val)
    return str(pat) == str(val)


def matches(entry, case, f):
    """entry['match']: {'cls': ..., '<field>': value | [values] | 're:...'};
    fields come from the Fail record; 'case' matches the canonical case text;
    'got'/'exp' match the recorded observation."""
    for k, pat in entry['match'].items():
        if k == 'cls':
            val = f['cls']
        elif k == 'case':
            val = key_of(case)
        elif k in ('got', 'exp'):
            val = f[k]
        else:
            val = f['fields'].get(k)
        if not _m(pat, val):
            return False
    return True


def split(prop, fails):
    entries = load(prop)
    counts = collections.OrderedDict()
    unknown = []
    for case, f in fails:
        for e in entries:
            if matches(e, case, f):
                counts[e['id']] = counts.get(e['id'], 0) + 1
                break
        else:
            unknown.append((case, f))
    what = {e['id']: e['what'] for e in entries}
    return [(i, what[i], n) for i, n in counts.items()], unknown
