"""C09 JSON export and import preserve every value and are a fixed point.
Engine E1: workbooks x sheet-name alphabet x cell kinds (three round trips each)
and every C01 formula tree (export -> parse -> export)."""
import json, itertools
from mc.core import Fail, result
from xl import models as M, family as F
from ref import wbeval as W, grammar as G
from ref.values import *

MANIFEST = {
    'engine': 'E1',
    'technique': 'exhaustive enumeration of workbooks x sheet names x constant kinds through export/import round trips, and of formula trees through export/re-parse, on the real code',
    'text': 'Fixed and generated workbooks (all reference forms, two books, names, array formulas) with every constant kind (numbers, fractions, text, text that looks like a '
            'formula, text with quotes/apostrophes, empty text, logicals, every error value, blanks) and sheet names drawn from a quoting alphabet are built from real .xlsx files '
            'and from dictionaries, exported with to_dict, serialised to JSON, re-imported with from_dict and re-exported three times: every cell of the re-imported model must equal '
            'the original model and the reference evaluator, and the JSON text must be identical from the first export on. Every C01 expression tree with <= 3 operators is '
            'exported, re-parsed and re-exported: text and value must be stable.' ' Later additions: raw workbooks (long literals, sheet-less and sheet-only keys, unbreakable and guarded cycles after finish(circular=True), chained names on the file and dictionary paths, an undefined name), nested reference operators among the re-parsed texts. A raw workbook whose calls take a parenthesised union or expression as their only argument, as one of several and nested (IRR, SUM, LARGE, SMALL, COUNT, ABS, ROUND).',
    'note': 'Trusted: ref/wbeval.py for values. Text-that-looks-like-a-formula can only enter through string cells of a file (the dictionary format defines "=..." as a formula).',
}
RULE = 'case = (workbook, sheet renaming, constant kinds, path) or one formula tree; non-trivial = exported and re-imported; distinct = case key'
ASSUMPTIONS = ['unresolved items (unknown functions, undefined names, #REF! literals): here only that the round trip neither raises nor changes any value; what the values are is C14\'s subject']

SHEETNAMES = ['S', 'Data 1', "It's", 'x-y', '1st', 'a.b', 'Über', 'lower', 'A1', 'TRUE']
TEXTS = [('formula-like', '=1+1'), ('quote', 'say "hi"'), ('apostrophe', "it's"), ('empty', ''), ('eq', '='), ('space', ' pad '), ('hash', '#EMPTY'), ('err-like', '#N/A x'),
         ('num-like', '007'), ('plus', '+1'), ('at', '@x'), ('brace', '{=1}'),
         # the import side tolerates leading blanks and sheet prefixes, so must the escaping on export
         ('sp-formula', ' =1+1'), ('sp-brace', '  {=SUM(1,2)}'), ('sheet-err', 'Data!#REF!'), ('qsheet-err', "'My Sheet'!#N/A"), ('sp-err', ' #DIV/0!'),
         ('nl-formula', '\n=2*3'), ('tab-formula', '\t=2*3'), ('sp-empty', ' #EMPTY'), ('lower-empty', '#empty'), ('brace-sp', '{ = 1 }'), ('eq-only-sp', ' = ')]
CONSTS = [('int', ['n', 3.0]), ('frac', ['n', 0.1]), ('neg', ['n', -2.5]), ('big', ['n', 1e+20]), ('true', ['b', True]), ('false', ['b', False])] + \
         [('err' + e, ['e', e]) for e in ERRS] + [('text-' + k, ['t', v]) for k, v in TEXTS]


def wb_cases(tier):
    q = tier == 'quick'
    base = [['model', m] for m in M.MODELS]
    for i, shape in enumerate(F.shapes(2)[::(10 if q else 2)]):
        forms = [[F.FORMS[(i + j + e) % len(F.FORMS)] if F.FORMS[(i + j + e) % len(F.FORMS)] != 'col' else 'range' for e in range(len(d))] for j, d in enumerate(shape)]
        base.append(['family', shape, forms])
    # sheet names: every name on every base workbook (renaming sheet S of book b)
    for wb in base:
        for sn in SHEETNAMES:
            for path in ('file', 'dict'):
                yield ['wb', wb, sn, None, path]
    # constant kinds at the first constant of the models and of three family workbooks
    for wb in base[:6]:
        for kind, v in CONSTS:
            for path in ('file', 'dict'):
                if path == 'dict' and v[0] == 't' and v[1].startswith('='):
                    continue        # in the dictionary format a string starting with '=' IS a formula
                yield ['wb', wb, 'S', [kind, v], path]
    for name in extra_models():
        for path in ('file', 'dict'):
            yield ['wb', ['extra', name], 'S', None, path]
    # whole-column form through the file path (clipped by the loader; exported as a whole column)
    yield ['wb', ['family', [[0, 1]], [['col', 'cell']]], 'S', None, 'file']


def extra_models():
    K, cell, rng, op, fn, num, const = M.K, M.cell, M.rng, M.op, M.fn, M.num, M.const
    B = M.B
    colon = lambda a, b: ['colon', a, b]
    nm = lambda x: ['name', B, x]
    grid = {K('S', '%s%d' % (c, r)): const(('n', float(10 * r + i))) for i, c in enumerate('AB') for r in (1, 2, 3)}
    return {
        # names defined through other names, as end points of the range operator in cell formulas and in another name
        'chained-names': {'cells': dict(grid, **{K('S', 'D1'): fn('COUNT', colon(nm('ALIAS'), cell('S', 'B3'))), K('S', 'D2'): fn('SUM', colon(nm('ALIAS'), nm('LAST'))),
                                                  K('S', 'D3'): fn('SUM', colon(nm('FIRST'), nm('LAST'))), K('S', 'D4'): fn('SUM', colon(cell('S', 'A2'), nm('ALIAS2'))),
                                                  K('S', 'D5'): op('+', fn('SUM', nm('FIRST')), fn('SUM', nm('LAST')))}),
                          'arrays': {}, 'names': {'%s|FIRST' % B: cell('S', 'A1'), '%s|ALIAS' % B: nm('FIRST'), '%s|LAST' % B: cell('S', 'B3'), '%s|ALIAS2' % B: nm('ALIAS')},
                          'sheets': [[B, 'S']]},
        # a name that no longer exists, used by a cell AND by another defined name; a name for a name; a name for a constant
        'undef-name': {'cells': {K('S', 'A1'): const(('n', 2.0)), K('S', 'B2'): op('+', ['name', B, 'OLD_RATE'], num(1)), K('S', 'B3'): op('*', ['name', B, 'ALIAS'], num(2)),
                                 K('S', 'B4'): fn('IFERROR', cell('S', 'B2'), num(7)), K('S', 'B5'): op('+', ['name', B, 'SECOND'], cell('S', 'A1')),
                                 K('S', 'B6'): op('*', ['name', B, 'KONST'], num(3))},
                       'arrays': {}, 'names': {'%s|ALIAS' % B: ['name', B, 'OLD_RATE'], '%s|FIRST' % B: cell('S', 'A1'), '%s|SECOND' % B: ['name', B, 'FIRST'], '%s|KONST' % B: num(4)},
                       'sheets': [[B, 'S']]},
    }


def spec_of(case):
    _, wb, sn, const, path = case
    if wb[0] == 'extra':
        return extra_models()[wb[1]]
    spec = M.MODELS[wb[1]]() if wb[0] == 'model' else F.build(wb[1], wb[2])
    if const is not None:
        k0 = [k for k, c in spec['cells'].items() if c[0] == 'const'][0]
        spec['cells'][k0] = ['const', const[1]]
    if sn != 'S':
        spec = W.rename_sheets(spec, {(M.B, 'S'): sn})
    return spec


def run_wb(case):
    import formulas
    from xl import wbspec as X
    from xl.evalcell import exc_name
    spec = spec_of(case)
    _, wb, sn, const, path = case
    desc = dict(wb=json.dumps(wb), sheet=sn, const=const and const[0], path=path, quoted=sn not in ('S', 'lower'))
    try:
        ref, _ = W.solve(spec)
    except W.Ambiguous:
        return result(0, ['skip:ambiguous-reference'])
    fails, oc, ex = [], [], 0

    def bad(cls, got, exp, **kw):
        fails.append(Fail(cls, got=got, exp=exp, **dict(desc, **kw)))
    try:
        if path == 'file':
            with X.Scratch() as d:
                m = X.model_from_files(spec, d)
        else:
            m = X.model_from_dict(spec)
        sol0 = m.calculate()
        ex += 1
    except Exception as e:
        return result(1, ['build-escape'], [Fail('build-escape', got='%s:%s' % (exc_name(e), str(e)[:100]), exp='a model', **desc)])
    d0 = X.compare(sol0, spec, ref)
    if d0:
        # the plain calculation is wrong: that is C03's subject; the round trip is still judged against the original model
        oc.append('original-differs-from-reference')
    texts = []
    cur = m
    for trip in (1, 2, 3):
        try:
            exported = cur.to_dict()
            text = json.dumps(exported, sort_keys=True)
            texts.append(text)
            cur = formulas.ExcelModel().from_dict(json.loads(text))
            sol = cur.calculate()
            ex += 2
        except Exception as e:
            bad('roundtrip-escape', '%s:%s' % (exc_name(e), str(e)[:100]), 'export and import succeed', trip=trip)
            break
        keys = list(ref)
        a, b = X.canon_solution(sol0, spec, keys), X.canon_solution(sol, spec, keys)
        diff = [(k, b[k], a[k]) for k in keys if a[k] != b[k] and not (a[k] in (None, BLANK) and b[k] in (None, BLANK))]
        if diff:
            k, g, e = diff[0]
            bad('value-changed', '%s=%s' % (k, g), '%s=%s' % (k, e), trip=trip, cell=k.split('|')[2])
            break
    for i in range(1, len(texts)):
        if texts[i] != texts[0]:
            x, y = json.loads(texts[0]), json.loads(texts[i])
            dk = [k for k in sorted(set(x) | set(y)) if x.get(k) != y.get(k)]
            bad('export-drift', '%s: %r' % (dk[0], y.get(dk[0])), '%s: %r' % (dk[0], x.get(dk[0])), trip=i + 1)
            break
    oc.append('wb:%s:%s' % (path, 'ok' if not fails else 'fail'))
    return result(ex, oc, fails)


# ----------------------------------------------------------- formula re-parse
def tree_cases(tier):
    from checks.c01 import NUMS, ALT_LEAVES, replace_leaf, nleaves, has_pctpct
    for n in (1, 2, 3):
        for t, _ in G.trees(n, NUMS):
            yield ['tree', t]
    for n in (1, 2):
        for t, _ in G.trees(n, NUMS):
            for i in range(nleaves(t)):
                for alt in ALT_LEAVES[1:]:
                    yield ['tree', replace_leaf(t, i, alt)]
    for f in ['SUM(1,,2)', 'IF(TRUE,{1,2;3,4},"a,b")', 'SUM((B1,C1))', 'SUM(B1:C2 C1:D2)', 'B1:C2', '-{1,-2}', '"q""r"&"x"', "'My Sheet'!A1+'[b.xlsx]It''s'!B2",
              'SUM(B:B)', 'SUM(2:3)', 'RATE_X*2', '#REF!+1', 'IFERROR(#N/A,"")', '1E+20+1E-5', '0.1+0.2',
              # reference operators nested in each other on either side (all three have one rank and group left to right)
              'SUM(B1:B3 (A2:B2:C3))', 'SUM((A1:B2,(C1:D1:D3)))', 'SUM((B1:B2:C3) A1:D4)', 'SUM(A1:C3 (B1:B2,B3))', 'SUM((A1:B2 B1:C2):D4)', 'SUM(A1:(B2,C3))',
              'SUM((A1:B2,C3) (A1:C3))', 'SUM(A1:B2:(C3:D4 C1:D5))', 'COUNT((A1,(B2,(C3,D4))))', 'SUM(A1:C3 (A2:B2 (A1:B3)))',
              # full-extent and boundary references in lower / mixed case and with $ (the export is upper case: it must name the same thing)
              'SUM(a1:xfd1)', 'COUNTA(a1:XFD2)', 'a1:XFD2 B:B', 'SUM(a:a)', 'SUM(a1:a1048576)', 'SUM($a$1:$xfd$1048576)', 'SUM(xfd1:xfd3)', 'SUM(A1:xfd1048576)',
              'SUM(1:1)', 'SUM(a1:b2 b2:c3)', "SUM('my sheet'!a1:xfd1)", 'SUM(r1c1:r1c16384)', 'SUM(R1C1:R1048576C1)', 'true+false', 'sum(b1,c1)*Pi()']:
        yield ['text', f]
    # constant formulas whose value is compared too: literals beyond 15 significant digits and at the ends of the double range
    for f in ['0.30000000000000004', '(0.1+0.2)=0.30000000000000004', 'MOD(9007199254740993,10)', '12345678901234567-12345678901234560', '3.14159265358979312',
              '1.7976931348623157E+308', '2.2250738585072014E-308', '4.9406564584124654E-324*1E+300', '0.1000000000000000055511151231257827', '123456789.123456789',
              '1E+15+0.3', '99999999999999999999', '0.000000000000000000012345678901234567', '1E-7', '100000000000000000000000', '1.5E+300*1', '-0.30000000000000004']:
        yield ['text', f, 'value']


def export_of(text):
    import formulas
    from formulas.errors import FormulaError
    try:
        return 'ok', formulas.Parser().ast(text)[1]
    except FormulaError:
        return 'FormulaError', None
    except Exception as e:
        return 'ESC:' + type(e).__name__, None


def run_tree(case):
    from checks.c01 import tree_from, has_pctpct, value_of, ENV
    if case[0] == 'tree':
        t = tree_from(case[1])
        if has_pctpct(t):
            return result(0, ['skip:%%'])
        text = G.spell(t, 'safe')
    else:
        text = case[1]
    st, b = export_of('=' + text)
    if st != 'ok':
        return result(1, ['skip:not-parsed'])        # C01/C18 judge acceptance
    e1 = b[-1].get_expr
    sr = G.has_sign_run(e1)
    fails = []
    st2, b2 = export_of('=' + e1)
    if st2 != 'ok':
        fails.append(Fail('export-not-reparsable', got=st2, exp='parses', text=text, export=e1, signrun=sr, pctpct='%%' in e1))
        return result(2, ['reparse-fail'], fails)
    e2 = b2[-1].get_expr
    if e2 != e1:
        fails.append(Fail('export-drift', got=e2, exp=e1, text=text, export=e1, signrun=sr, pctpct='%%' in e1))
    if case[0] == 'tree' or (case[0] == 'text' and len(case) > 2):
        v1, v2 = value_of(b, ENV), value_of(b2, ENV)
        if v1 != v2 and not (v1[0] == 'n' and v2[0] == 'n' and close(v1, v2, 1e-12)):
            fails.append(Fail('value-changed', got=v2, exp=v1, text=text, export=e1, signrun=sr, pctpct='%%' in e1))
    return result(4, ['tree:' + ('ok' if not fails else 'fail')], fails)


# ----------------------------------------------------------- unresolved items
RAW = {
    'unknown-function': {"'[b.xlsx]S'!A1": 2, "'[b.xlsx]S'!B1": "=NOSUCHFUNC('[b.xlsx]S'!A1)+1", "'[b.xlsx]S'!C1": "=IFERROR('[b.xlsx]S'!B1,5)", "'[b.xlsx]S'!D1": "='[b.xlsx]S'!A1*3"},
    'xlfn-function': {"'[b.xlsx]S'!A1": 2, "'[b.xlsx]S'!B1": "=_xlfn.NEWFUNC('[b.xlsx]S'!A1)", "'[b.xlsx]S'!C1": "=ISERROR('[b.xlsx]S'!B1)"},
    'undefined-name': {"'[b.xlsx]S'!A1": 2, "'[b.xlsx]S'!B1": "='[b.xlsx]'!NO_SUCH_NAME+'[b.xlsx]S'!A1", "'[b.xlsx]S'!C1": "=IFERROR('[b.xlsx]S'!B1,5)"},
    'ref-literal': {"'[b.xlsx]S'!A1": 2, "'[b.xlsx]S'!B1": "=#REF!+'[b.xlsx]S'!A1", "'[b.xlsx]S'!C1": "=IFERROR('[b.xlsx]S'!B1,\"r\")", "'[b.xlsx]S'!D1": "=SUM('[b.xlsx]S'!A1:B1)"},
    'other-sheet-unpopulated': {"'[b.xlsx]S'!A1": 2, "'[b.xlsx]S'!B1": "='[b.xlsx]T'!Z9+'[b.xlsx]S'!A1", "'[b.xlsx]S'!C1": "=ISBLANK('[b.xlsx]T'!Z9)"},
    'defined-names': {"'[b.xlsx]S'!A1": 2, "'[b.xlsx]S'!A2": 3, "'[b.xlsx]'!TOTAL": "=SUM('[b.xlsx]S'!A1:A2)", "'[b.xlsx]'!FIRST": "='[b.xlsx]S'!A1",
                      "'[b.xlsx]S'!B1": "='[b.xlsx]'!TOTAL*'[b.xlsx]'!FIRST", "'[b.xlsx]'!BOTH": "='[b.xlsx]S'!A1:A2", "'[b.xlsx]S'!B2": "=SUM('[b.xlsx]'!BOTH)"},
    # ranges that overlap on unpopulated cells: which blanks become explicit nodes must not depend on the trip
    'overlapping-sparse-ranges': {"'[b.xlsx]S'!A1": 1, "'[b.xlsx]S'!A2": 2, "'[b.xlsx]S'!B1": "=SUM('[b.xlsx]S'!A1:A3)", "'[b.xlsx]S'!B2": "=SUM('[b.xlsx]S'!A3:B3)",
                                  "'[b.xlsx]S'!C1": "=SUM('[b.xlsx]S'!A1:B4)", "'[b.xlsx]S'!C2": "=COUNT('[b.xlsx]S'!A2:A6)+'[b.xlsx]S'!A5"},
    'sparse-ranges-2': {"'[b.xlsx]S'!A1": 1, "'[b.xlsx]S'!C3": 2, "'[b.xlsx]S'!E1": "=SUM('[b.xlsx]S'!A1:C3)", "'[b.xlsx]S'!E2": "=SUM('[b.xlsx]S'!B2:D4)",
                        "'[b.xlsx]S'!E3": "=SUM('[b.xlsx]S'!B1:B5)+'[b.xlsx]S'!B2", "'[b.xlsx]S'!E4": "=SUM('[b.xlsx]S'!A2:D2)"},
    # numeric literals that need more than 15 significant digits, at the ends of the double range
    'long-literals': {"'[b.xlsx]S'!A1": "=(0.1+0.2)=0.30000000000000004", "'[b.xlsx]S'!A2": "=MOD(9007199254740993,10)", "'[b.xlsx]S'!A3": "=3.14159265358979312*1E+15",
                      "'[b.xlsx]S'!A4": "=12345678901234567-12345678901234560", "'[b.xlsx]S'!A5": "=(0.1+0.2-0.30000000000000004)*1E+17",
                      "'[b.xlsx]S'!A6": "=1.7976931348623157E+308/10", "'[b.xlsx]S'!A7": "=2.2250738585072014E-308*2", "'[b.xlsx]S'!A8": "=0.1000000000000000055511151231257827*3",
                      "'[b.xlsx]S'!A9": 0.30000000000000004, "'[b.xlsx]S'!A10": 9007199254740993, "'[b.xlsx]S'!A11": "='[b.xlsx]S'!A9=0.1+0.2"},
    # cells and ranges without sheet or workbook (the form of the library's own from_dict example), with unpopulated cells read alone and in ranges
    'sheetless': {"A1": 1, "A2": 2, "B1": "=SUM(A1:A3)", "B2": "=A4+1", "B3": "=A1&A5", "C1": "=B1*2", "C2": "=SUM(A1:A2)+COUNT(A6:A8)"},
    'sheet-only': {"S!A1": 1, "S!A2": 2, "S!B1": "=SUM(S!A1:A3)", "S!B2": "=S!A4+1", "T!A1": "=S!B1+S!A9"},
    # circular references (handled with finish(circular=True) on both sides of the round trip): unbreakable and guarded cycles
    'circ-unbreakable': {"'[b.xlsx]S'!A1": "='[b.xlsx]S'!B1+1", "'[b.xlsx]S'!B1": "='[b.xlsx]S'!A1+1", "'[b.xlsx]S'!C1": "=IF(ISERROR('[b.xlsx]S'!A1),\"loop\",'[b.xlsx]S'!A1*2)",
                         "'[b.xlsx]S'!D1": "=SUM('[b.xlsx]S'!A1:B1)", "'[b.xlsx]S'!E1": 5, "'[b.xlsx]S'!E2": "='[b.xlsx]S'!E1*2"},
    'circ-guarded': {"'[b.xlsx]S'!G1": False, "'[b.xlsx]S'!A1": "=IF('[b.xlsx]S'!G1,'[b.xlsx]S'!B1,5)", "'[b.xlsx]S'!B1": "='[b.xlsx]S'!A1*2", "'[b.xlsx]S'!C1": "=IFERROR('[b.xlsx]S'!B1,7)"},
    # names defined through other names, used as end points of the range operator and inside other names
    'chained-names': dict({"'[b.xlsx]S'!%s%d" % (c, r): 10 * r + i for i, c in enumerate('AB') for r in (1, 2, 3)},
                          **{"'[b.xlsx]'!FIRST": "='[b.xlsx]S'!A1", "'[b.xlsx]'!ALIAS": "='[b.xlsx]'!FIRST", "'[b.xlsx]'!LAST": "='[b.xlsx]S'!B3",
                             "'[b.xlsx]'!ALIAS2": "='[b.xlsx]'!ALIAS", "'[b.xlsx]'!BLOCK": "='[b.xlsx]'!FIRST:'[b.xlsx]'!LAST",
                             "'[b.xlsx]S'!C1": "=COUNT('[b.xlsx]'!ALIAS:'[b.xlsx]S'!B3)", "'[b.xlsx]S'!C2": "=SUM('[b.xlsx]'!ALIAS:'[b.xlsx]'!LAST)",
                             "'[b.xlsx]S'!C3": "=SUM('[b.xlsx]'!FIRST:'[b.xlsx]'!LAST)", "'[b.xlsx]S'!C4": "=SUM('[b.xlsx]S'!A2:'[b.xlsx]'!ALIAS2)",
                             "'[b.xlsx]S'!C5": "=SUM('[b.xlsx]'!BLOCK)+'[b.xlsx]'!ALIAS2"}),
    # a parenthesised union (or expression) as the only argument, as one of several arguments and nested: the brackets are part of the meaning
    'union-arguments': {"'[b.xlsx]S'!A1": -100, "'[b.xlsx]S'!B1": 30, "'[b.xlsx]S'!B2": 50, "'[b.xlsx]S'!B3": 60,
                        "'[b.xlsx]S'!C1": "=IRR(('[b.xlsx]S'!A1,'[b.xlsx]S'!B1:B3))", "'[b.xlsx]S'!C2": "=ABS(('[b.xlsx]S'!A1+'[b.xlsx]S'!B1))",
                        "'[b.xlsx]S'!C3": "=SUM(('[b.xlsx]S'!A1,'[b.xlsx]S'!B1:B3))", "'[b.xlsx]S'!C4": "=LARGE(('[b.xlsx]S'!A1,'[b.xlsx]S'!B1:B3),2)",
                        "'[b.xlsx]S'!C5": "=SMALL(('[b.xlsx]S'!B1:B3,'[b.xlsx]S'!A1),1)+COUNT(('[b.xlsx]S'!A1,'[b.xlsx]S'!B1:B2),'[b.xlsx]S'!B3)",
                        "'[b.xlsx]S'!C6": "=IRR(('[b.xlsx]S'!A1,'[b.xlsx]S'!B1:B3),0.1)", "'[b.xlsx]S'!C7": "=ROUND((('[b.xlsx]S'!B1+'[b.xlsx]S'!B2)),(1))"},
    'hex-and-arrays': {"'[b.xlsx]S'!A1": 255, "'[b.xlsx]S'!B1": "=DEC2HEX('[b.xlsx]S'!A1)", "'[b.xlsx]S'!C1:D2": "={1,2;3,4}*'[b.xlsx]S'!A1", "'[b.xlsx]S'!E1": "=SUM('[b.xlsx]S'!C1:D2)"},
}


def run_raw(case):
    import formulas
    import numpy as np
    from xl.evalcell import classify_array, exc_name
    _, name = case
    fails = []
    desc = dict(wb=name, path='dict', sheet='S', const=None)

    def canon(sol):
        return {k: classify_array(np.asarray(v.value, object)) for k, v in sol.items() if isinstance(k, str) and hasattr(v, 'value')}
    try:
        circ = name.startswith('circ')
        build = (lambda d: formulas.ExcelModel().from_dict(d, assemble=False).finish(complete=False, circular=True)) if circ else (lambda d: formulas.ExcelModel().from_dict(d))
        m = build(dict(RAW[name]))
        base = canon(m.calculate())
        texts, cur = [], m
        for trip in (1, 2, 3):
            t = json.dumps(cur.to_dict(), sort_keys=True)
            texts.append(t)
            cur = build(json.loads(t))
            got = canon(cur.calculate())
            diff = [k for k in base if got.get(k) != base[k]]
            if diff:
                fails.append(Fail('value-changed', got='%s=%s' % (diff[0], got.get(diff[0])), exp='%s=%s' % (diff[0], base[diff[0]]), trip=trip, **desc))
                break
        if len(set(texts)) != 1 and not fails:
            fails.append(Fail('export-drift', got=texts[-1][:200], exp=texts[0][:200], **desc))
    except Exception as e:
        fails.append(Fail('roundtrip-escape', got='%s:%s' % (exc_name(e), str(e)[:100]), exp='export and import succeed', **desc))
    return result(7, ['raw:%s:%s' % (name, 'ok' if not fails else 'fail')], fails)


def run_case(case):
    if case[0] == 'raw':
        return run_raw(case)
    return run_wb(case) if case[0] == 'wb' else run_tree(case)


def run(ctx):
    ctx.explore(run_case, wb_cases(ctx.tier), chunksize=4, label='workbook_roundtrips')
    ctx.explore(run_case, tree_cases(ctx.tier), chunksize=128, label='formula_reparse')
    ctx.explore(run_case, (['raw', n] for n in RAW), chunksize=1, label='unresolved_items_and_names')
    return {}
