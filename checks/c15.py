"""C15 A model loaded from chosen outputs equals the full model on them.
Engine E1: workbooks (files) x every non-empty subset of candidate outputs."""
import itertools, json, os
from mc.core import Fail, result
from xl import models as M, family as F
from ref import wbeval as W
from ref.values import *

MANIFEST = {
    'engine': 'E1',
    'technique': 'exhaustive enumeration of all non-empty output subsets per workbook on real files; partial model vs full model vs reference; completion idempotence by structure fingerprint',
    'text': 'Fixed workbooks (range/name/array-formula chain, two sheets, two books, array formula anchored outside the requested cells, whole-column reference) and a generated '
            'sub-family are written as .xlsx files; for every non-empty subset of the candidate outputs (all formula cells plus referenced ranges, up to 255 subsets per workbook) '
            'a model is built with from_ranges(...).finish() and calculated; each requested output must equal the value in the fully loaded model and in the reference evaluator. '
            'complete() and finish() are then applied again and the node set, edge set and results must be unchanged. Two more fixed workbooks give two books a sheet of the same name with different used extents, in both file-name orders; array-formula blocks reaching beyond the used area of the sheet; a lazily loaded linked book with one reference to a sheet it does not have and valid references sorting before and after it.' ' Later additions: spill blocks beyond the used area, a range overlapped by four array blocks, constants beyond 15 significant digits, numeric links across three books in both directions, dangling sheets, a sheet title whose upper case changes length, whole-column readers on both sides of a rectangle (colskip; four at a time, fresh child per case).',
    'note': 'Trusted: ref/wbeval.py; the fully loaded model is a second reference.',
}
RULE = 'case = (workbook, output subset); non-trivial = partial model built and calculated; distinct = case key'
ASSUMPTIONS = ['workbooks limited to the fixed models and the generated sub-family (<= 8 candidate outputs each)']


def model_anchor():
    """array formula B1:B2 anchored at B1; C2 depends on the spill cell B2 only; D1 on a whole column."""
    K, cell, rng, op, fn, num, const = M.K, M.cell, M.rng, M.op, M.fn, M.num, M.const
    cells = {
        K('S', 'A1'): const(('n', 1.0)), K('S', 'A2'): const(('n', 2.0)),
        K('S', 'C2'): op('+', cell('S', 'B2'), num(1)),
        K('S', 'C1'): op('+', cell('S', 'B1'), num(1)),
        K('S', 'D1'): fn('SUM', rng('S', 'B1:B2'), cell('T', 'A1')),
        K('T', 'A1'): op('*', cell('S', 'C2'), num(10)),
    }
    return {'cells': cells, 'arrays': {K('S', 'B1:B2'): op('*', rng('S', 'A1:A2'), num(2))}, 'names': {}, 'sheets': [[M.B, 'S'], [M.B, 'T']]}


def model_col():
    K, cell, rng, op, fn, num, const = M.K, M.cell, M.rng, M.op, M.fn, M.num, M.const
    cells = {
        K('S', 'A1'): const(('n', 1.0)), K('S', 'A2'): const(('n', 2.0)), K('S', 'A5'): const(('n', 4.0)),
        K('S', 'C1'): fn('SUM', ['col', M.B, 'S', 'A']),
        K('S', 'C2'): op('+', cell('S', 'C1'), ['name', M.B, 'TOTAL']),
        K('T', 'A1'): fn('MAX', ['col', M.B, 'S', 'A'], cell('S', 'C2')),
    }
    return {'cells': cells, 'arrays': {}, 'names': {'%s|TOTAL' % M.B: cell('S', 'C1')}, 'sheets': [[M.B, 'S'], [M.B, 'T']]}


def model_samesheet(H=M.B, C=M.C):
    """two books that both have a sheet called Data, with different used extents (H small, C large); a name that lives
    in the linked book.  Built in both name orders: the completion work-list is sorted by node id."""
    cell = lambda s, c, b=H: ['cell', b, s, c]
    rng = lambda s, r, b=H: ['rng', b, s, r]
    K = lambda s, c, b=H: M.W.key(b, s, c)
    op, fn, num, const = M.op, M.fn, M.num, M.const
    cells = {K('Data', 'B1'): const(('n', 1.0)), K('Data', 'B2'): const(('n', 2.0))}
    for r in range(1, 11):
        cells[K('Data', 'A%d' % r, C)] = const(('n', float(r)))
    cells[K('Data', 'D12', C)] = op('*', ['name', C, 'TENTH'], num(3))
    cells.update({
        K('Data', 'A1'): fn('SUM', rng('Data', 'A1:A10', C)),
        K('Data', 'A2'): fn('SUM', rng('Data', 'B1:B2')),
        K('Data', 'A3'): op('+', cell('Data', 'A8', C), cell('Data', 'A9', C)),
        K('Data', 'C3'): op('+', cell('Data', 'D12', C), cell('Data', 'B2')),
    })
    return {'cells': cells, 'arrays': {}, 'names': {'%s|TENTH' % C: cell('Data', 'A10', C)}, 'sheets': [[H, 'Data'], [C, 'Data']]}


def model_longspill():
    """an array formula block whose rows change digit count (B2:B12); dependents of single spill cells at rows 4, 9, 10, 11, 12."""
    K, cell, rng, op, fn, num, const = M.K, M.cell, M.rng, M.op, M.fn, M.num, M.const
    cells = {K('S', 'A%d' % r): const(('n', float(r))) for r in range(2, 13)}
    for r in (4, 9, 10, 11, 12):
        cells[K('S', 'D%d' % r)] = op('+', cell('S', 'B%d' % r), num(1))
    cells[K('S', 'E1')] = fn('SUM', rng('S', 'B9:B10'))
    return {'cells': cells, 'arrays': {K('S', 'B2:B12'): op('*', rng('S', 'A2:A12'), num(2))}, 'names': {}, 'sheets': [[M.B, 'S']]}


def model_quoted():
    """sheets whose titles need quoting (apostrophe + lower case, blank, digit first), reached only through references."""
    K, cell, rng, op, fn, num, const = M.K, M.cell, M.rng, M.op, M.fn, M.num, M.const
    q, w, d = "Bob's data", 'my sheet', '2nd'
    u = 'Straße'          # upper() changes the length, lower() of that does not give the title back
    cells = {
        K(u, 'A1'): const(('n', 70.0)), K(u, 'B1'): op('+', cell(u, 'A1'), num(3)), K('Summary', 'B4'): op('*', cell(u, 'B1'), num(1)),
        K('Summary', 'B5'): fn('SUM', rng(u, 'A1:B1')),
        K(q, 'A1'): const(('n', 10.0)), K(q, 'A2'): const(('n', 20.0)), K(q, 'B3'): op('+', cell(q, 'A1'), cell(q, 'A2')),
        K(w, 'A1'): const(('n', 3.0)), K(w, 'B1'): op('*', cell(w, 'A1'), cell(q, 'B3')),
        K(d, 'A1'): const(('n', 4.0)), K(d, 'B1'): fn('SUM', rng(q, 'A1:A2'), cell(d, 'A1')),
        K('Summary', 'B1'): op('*', cell(q, 'B3'), num(2)), K('Summary', 'B2'): fn('SUM', rng(q, 'A1:A2')),
        K('Summary', 'B3'): op('+', cell(w, 'B1'), cell(d, 'B1')),
    }
    return {'cells': cells, 'arrays': {}, 'names': {}, 'sheets': [[M.B, 'Summary'], [M.B, q], [M.B, w], [M.B, d], [M.B, u]]}


def model_spillpast():
    """array-formula blocks that reach beyond the used area of the sheet (only the anchor is a stored cell): a column block
    F1:F6 below the last used row and a row block G2:K2 right of the last used column; dependents of single far spill cells."""
    K, cell, rng, op, fn, num, const = M.K, M.cell, M.rng, M.op, M.fn, M.num, M.const
    cells = {
        K('S', 'A1'): const(('n', 1.0)), K('S', 'A2'): const(('n', 2.0)),
        K('S', 'B1'): op('+', cell('S', 'F5'), num(1)), K('S', 'B2'): op('+', cell('S', 'F6'), cell('S', 'A1')),
        K('S', 'C1'): op('*', cell('S', 'J2'), num(3)), K('S', 'C2'): fn('SUM', rng('S', 'F4:F6'), cell('S', 'K2')),
    }
    arrays = {K('S', 'F1:F6'): op('+', op('*', cell('S', 'A1'), num(10)), cell('S', 'A2')), K('S', 'G2:K2'): op('*', cell('S', 'A2'), num(5))}
    return {'cells': cells, 'arrays': arrays, 'names': {}, 'sheets': [[M.B, 'S']]}


def model_multispill():
    """one referenced range overlapped by four array-formula blocks whose anchors all lie outside it."""
    K, cell, rng, op, fn, num, const = M.K, M.cell, M.rng, M.op, M.fn, M.num, M.const
    cells = {K('S', 'A1'): const(('n', 1.0)), K('S', 'A2'): const(('n', 2.0)),
             K('S', 'H1'): fn('SUM', rng('S', 'D2:G3')), K('S', 'H2'): op('+', cell('S', 'E2'), cell('S', 'G3'))}
    arrays = {K('S', 'D1:D3'): op('*', cell('S', 'A1'), num(5)), K('S', 'E1:E2'): op('*', cell('S', 'A2'), num(50)),
              K('S', 'F1:F3'): op('*', cell('S', 'A1'), num(500)), K('S', 'G1:G4'): op('*', cell('S', 'A2'), num(5000))}
    return {'cells': cells, 'arrays': arrays, 'names': {}, 'sheets': [[M.B, 'S']]}


def model_colskip():
    """two non-adjacent whole columns read in full (A:A, C:C) and a rectangle that has them as its outer columns; the inner column is
    referenced by nothing else and holds formulas with precedents of their own."""
    K, cell, rng, op, fn, num, const = M.K, M.cell, M.rng, M.op, M.fn, M.num, M.const
    cells = {K('S', 'A%d' % r): const(('n', float(r))) for r in range(1, 6)}
    cells.update({K('S', 'C%d' % r): const(('n', float(100 * r))) for r in range(1, 6)})
    cells.update({K('S', 'B2'): const(('n', 7.0)), K('S', 'B4'): const(('n', 9.0)), K('S', 'G1'): const(('n', 20.0)),
                  K('S', 'B1'): op('*', cell('S', 'G1'), num(2)), K('S', 'B3'): op('+', cell('S', 'B1'), cell('T', 'A1')), K('T', 'A1'): const(('n', 1.0)),
                  # (readers of the rectangle sort before AND after the readers of the whole columns: the completion work-list is a stack)
                  K('S', 'E1'): fn('SUM', rng('S', 'A1:C5')), K('S', 'E2'): fn('SUM', ['col', M.B, 'S', 'A']), K('S', 'E3'): fn('SUM', ['col', M.B, 'S', 'C']),
                  K('S', 'E4'): fn('MAX', rng('S', 'A1:C5'))})
    # (whole-column models take 2.6 GB and 10 s each: only the four readers are candidate outputs)
    return {'cells': cells, 'arrays': {}, 'names': {}, 'sheets': [[M.B, 'S'], [M.B, 'T']], 'only_outputs': ['E1', 'E2', 'E3', 'E4']}


def model_longfloat():
    """constants stored with more than 15 significant digits (0.1+0.2, 0.7+0.1 pasted as values), read by exact-match consumers;
    the partial model must load them exactly as the full model does (no reference verdict: only partial vs full)."""
    K, cell, rng, op, fn, num, const = M.K, M.cell, M.rng, M.op, M.fn, M.num, M.const
    cells = {
        K('S', 'A1'): const(('n', 0.1 + 0.2)), K('S', 'A2'): const(('n', 0.7 + 0.1)), K('S', 'A3'): const(('n', 1.1 * 1.1)),
        K('S', 'B1'): op('=', cell('S', 'A1'), num(0.3)), K('S', 'B2'): op('=', cell('S', 'A2'), num(0.8)),
        K('S', 'B3'): op('*', op('-', cell('S', 'A3'), num(1.21)), num(1e17)), K('T', 'A1'): fn('IF', op('=', cell('S', 'A2'), num(0.8)), num(1), num(2)),
        K('S', 'B4'): op('-', fn('SUM', rng('S', 'A1:A3')), num(2.31)),
    }
    return {'cells': cells, 'arrays': {}, 'names': {}, 'sheets': [[M.B, 'S'], [M.B, 'T']], 'no_ref': True}


def model_linkhop():
    """three workbooks with numeric external links in BOTH directions: the work-list leaves a sheet of the home book, first-visits a
    sheet of another book and comes back to compile a cell that uses the home book's own link table."""
    B, C, D = M.B, M.C, 'd.xlsx'
    cell = lambda b, s, c: ['cell', b, s, c]
    K = lambda b, s, c: M.W.key(b, s, c)
    op, fn, num, const = M.op, M.fn, M.num, M.const
    cells = {
        K(B, 'S', 'A1'): op('+', cell(C, 'U', 'B1'), num(1)),
        K(C, 'U', 'B1'): op('*', cell(B, 'S', 'C1'), num(3)),
        K(B, 'S', 'C1'): op('*', cell(D, 'V', 'A3'), num(2)),
        K(D, 'V', 'A3'): const(('n', 4.0)),
        K(B, 'S', 'A2'): op('+', cell(B, 'S', 'A1'), cell(D, 'V', 'A3')),
        K(B, 'T', 'A1'): op('+', cell(C, 'U', 'B2'), cell(D, 'V', 'A4')), K(C, 'U', 'B2'): const(('n', 6.0)), K(D, 'V', 'A4'): op('*', cell(C, 'U', 'B2'), num(10)),
    }
    return {'cells': cells, 'arrays': {}, 'names': {}, 'sheets': [[B, 'S'], [B, 'T'], [C, 'U'], [D, 'V']],
            'links': {B: ['legacy.xls', C, D], C: [B, D], D: ['gone.xlsx', C]}}


def model_dangling(H=M.B, C=M.C):
    """a linked workbook reached lazily: one reference to a sheet it does not have (intercepted), and valid references to it that
    sort before and after the dangling one in the completion work-list (sheets Alpha < Gone < Zeta)."""
    cell = lambda s, c, b=H: ['cell', b, s, c]
    K = lambda s, c, b=H: M.W.key(b, s, c)
    op, fn, num, const = M.op, M.fn, M.num, M.const
    cells = {
        K('Main', 'A1'): op('*', cell('Zeta', 'A1', C), num(2)),
        K('Main', 'A2'): op('+', cell('Alpha', 'A1', C), num(1)),
        K('Main', 'A3'): fn('IFERROR', cell('Gone', 'A1', C), num(5)),
        K('Main', 'A4'): op('+', fn('SUM', ['rng', C, 'Zeta', 'A1:A2']), cell('Alpha', 'B1', C)),
        K('Alpha', 'A1', C): const(('n', 10.0)), K('Alpha', 'B1', C): op('+', cell('Alpha', 'A1', C), num(5)),
        K('Zeta', 'A1', C): const(('n', 21.0)), K('Zeta', 'A2', C): const(('n', 4.0)),
    }
    return {'cells': cells, 'arrays': {}, 'names': {}, 'sheets': [[H, 'Main'], [C, 'Alpha'], [C, 'Zeta']], 'strict_sheets': True}


FIXED = dict(M.MODELS, colskip=model_colskip, longfloat=model_longfloat, linkhop=model_linkhop, multispill=model_multispill, spillpast=model_spillpast, dangling=model_dangling, dangling2=lambda: model_dangling(M.C, M.B), anchor=model_anchor, col=model_col, samesheet=model_samesheet, samesheet2=lambda: model_samesheet(M.C, M.B),
             longspill=model_longspill, quoted=model_quoted)


def spec_of(wb):
    if wb[0] == 'model':
        return FIXED[wb[1]]()
    return F.build(wb[1], wb[2])


def candidates(spec):
    from xl.wbspec import lib_id
    out = [(k, lib_id(*k.split('|'))) for k, c in spec['cells'].items() if c[0] != 'const' and (not spec.get('only_outputs') or k.split('|')[2] in spec['only_outputs'])]
    for ak in spec.get('arrays', {}):
        out.append((ak, lib_id(*ak.split('|'))))
    return out[:8]


def wbs(tier):
    out = [['model', m] for m in FIXED]
    step = 15 if tier == 'quick' else 2
    for i, shape in enumerate(F.shapes(2)[::step] + F.shapes(3)[::(300 if tier == 'quick' else 40)]):
        forms = [[F.FORMS[(i + j + e) % len(F.FORMS)] if F.FORMS[(i + j + e) % len(F.FORMS)] != 'col' else 'range' for e in range(len(d))] for j, d in enumerate(shape)]
        out.append(['family', shape, forms])
    return out


def cases(tier):
    for wb in wbs(tier):
        spec = spec_of(wb)
        n = len(candidates(spec))
        for r in range(1, n + 1):
            for sub in itertools.combinations(range(n), r):
                yield ['sub', wb, list(sub)]


def structure(m):
    dsp = m.dsp
    return (sorted(map(str, dsp.nodes)), sorted((str(a), str(b)) for a, b in dsp.dmap.edges))


def run_case(case):
    _, wb, sub = case
    import formulas
    import numpy as np
    from xl import wbspec as X
    from xl.evalcell import exc_name, classify
    spec = spec_of(wb)
    cands = candidates(spec)
    sel = [cands[i] for i in sub]
    desc = dict(wb=json.dumps(wb), outputs=','.join(k for k, _ in sel), nout=len(sel))
    fails, ex = [], 0
    try:
        ref, _ = W.solve(spec)
    except W.Ambiguous:
        return result(0, ['skip:ambiguous-reference'])
    cwd = os.getcwd()
    with X.Scratch() as d:
        try:
            paths = X.write_files(spec, d)
            os.chdir(d)
            full = formulas.ExcelModel().loads(*sorted(os.path.basename(p) for p in paths.values())).finish()
            sol_full = full.calculate()
            part = formulas.ExcelModel().from_ranges(*[i for _, i in sel]).finish()
            sol = part.calculate()
            ex += 2
            st1 = structure(part)
            part.complete()
            part.finish()
            st2 = structure(part)
            sol2 = part.calculate()
            ex += 1
        except Exception as e:
            os.chdir(cwd)
            return result(ex + 1, ['escape'], [Fail('escape', got='%s:%s' % (exc_name(e), str(e)[:120]), exp='partial model builds and calculates', **desc)])
        finally:
            os.chdir(cwd)
    for k, i in sel:
        keys = [k] if ':' not in k.split('|')[2] else [W.key(k.split('|')[0], k.split('|')[1], W.coord(c, r)) for r in range(W.parse_rect(k.split('|')[2])[1], W.parse_rect(k.split('|')[2])[3] + 1)
                                                         for c in range(W.parse_rect(k.split('|')[2])[0], W.parse_rect(k.split('|')[2])[2] + 1)]
        for kk in keys:
            g = X.cell_value(sol, spec, kk)
            f = X.cell_value(sol_full, spec, kk)
            e = ref.get(kk) if not spec.get('no_ref') else None
            if g is None:
                fails.append(Fail('output-missing', got='absent', exp=str(e), cell=kk, **desc))
            elif f is not None and g != f and not close(g, f, 1e-12):
                fails.append(Fail('differs-from-full-model', got='%s=%s' % (kk, g), exp='%s=%s' % (kk, f), cell=kk, **desc))
            elif e is not None and g != e and not close(g, e, 1e-12):
                fails.append(Fail('wrong-value', got='%s=%s' % (kk, g), exp='%s=%s' % (kk, e), cell=kk, **desc))
            g2 = X.cell_value(sol2, spec, kk)
            if g2 != g:
                fails.append(Fail('recompletion-changes-result', got='%s=%s' % (kk, g2), exp='%s=%s' % (kk, g), cell=kk, **desc))
    if st1 != st2:
        extra = sorted(set(st2[0]) - set(st1[0]))[:3] + sorted(set(st1[0]) - set(st2[0]))[:3]
        fails.append(Fail('recompletion-changes-structure', got=str(extra) or 'edges differ', exp='same nodes and edges', **desc))
    return result(ex, ['sub:%d:%s' % (len(sel), 'ok' if not fails else 'fail')], fails[:6])


def run(ctx):
    # workbooks with whole-column references build 1048576-row arrays (up to 6 GB per case): those run 4 at a time
    heavy = lambda c: c[1][0] == 'model' and c[1][1] in ('col', 'colskip')
    allc = list(cases(ctx.tier))
    ctx.explore(run_case, [c for c in allc if not heavy(c)], chunksize=4, label='output_subsets')
    ctx.explore(run_case, [c for c in allc if heavy(c)], chunksize=1, label='output_subsets_whole_columns', nproc=4)
    return {'workbooks': len(wbs(ctx.tier))}
