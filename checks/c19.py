"""C19 Lookup and criteria functions agree with their search definitions.
Engine E1: complete enumeration of key vectors x lookup values x modes x
shapes x spellings, executed on the real code and compared with the
linear-scan definitions in ref/lookup.py."""
import itertools
from mc.core import Fail, result
from ref.values import *
from ref import lookup as L

MANIFEST = {
    'engine': 'E1',
    'technique': 'bounded exhaustive enumeration of key vectors x lookup values x match modes x table shapes x spellings '
                 'on the real code vs linear-scan reference definitions',
    'text': 'COUNTIF/SUMIF/AVERAGEIF are also called with a two-element array of criteria (every ordered pair of 12 criteria) over ranges holding numeric text: each element must equal the same criterion evaluated alone. ' 'MATCH is run on every strictly ascending / descending key vector of length <= 4 over {1,3,5,7}, {b,d,f}, '
            '{FALSE,TRUE} and their typed-block mixes with every lookup value inside, between, below, above and of another type, '
            'and in exact mode on every vector of length <= 4 over {1,2,"a","A","b*",TRUE,blank} (keys, absent values, wildcard patterns ? * ~*, the word "empty"); INDEX, VLOOKUP, HLOOKUP and LOOKUP '
            'on every table shape up to 4x4 (6x6 thorough) with every row/column index from 0 to size+1; COUNTIF/SUMIF/AVERAGEIF on every '
            'range vector of length 3 over a typed pool with every operator x operand-kind criterion.  Nothing is sampled.' ' Later additions: arrays of criteria, escaped next to live wild cards, error values among exact-match keys, selections that are all zero or cancel out (a blank criterion against zeros is not judged).',
    'note': 'Trusted: ref/lookup.py (audited against the Excel-cached values of the LOOKUP/MATH/STATISTICAL sheets at the start of every run). '
            'Approximate modes on unsorted data, blanks in sorted vectors, errors inside vectors and numeric text inside criteria ranges are not decided.',
}
RULE = ('one case = (function, key vector / table shape / range vector, mode, spelling); inside it every lookup value x index '
        '(or every criterion) is executed; non-trivial = at least one execution judged by the oracle; distinct = distinct case key')
ASSUMPTIONS = [
    'approximate MATCH/LOOKUP consider only the elements of the key\'s own type (agrees with all 530 judged Excel-cached results, '
    'including interleaved-type vectors); typed-block vectors are therefore judged by the same linear scan',
    'a blank lookup value acts as the number 0; in exact mode a blank element is accepted as found-or-not for a blank key',
    'V/HLOOKUP with an index < 1 give #VALUE!, > size #REF!; when the key is also not found #N/A is accepted too',
    'INDEX with a 0 index is judged only where one cell shows an unambiguous value: vectors, array constants (top-left), '
    'whole column of a reference whose first row is the formula row; whole row / whole table of a 2-D reference is not judged',
    'criteria: for <> an element of another type than the operand (or a blank) may be counted (Excel) or not (strict '
    '"within their own type" reading): both totals are accepted',
    'criteria not judged: a bare < > <= >=; wildcard text after < > <= >=; numeric text, errors or "" inside the range; sum range of another shape',
    'array-form LOOKUP(key, 2-D table) follows the documented rule (wider than tall: first row -> last row, else first column -> last column)',
]

COLS = 'BCDEFGHI'


# -- value coding (cases are JSON) ----------------------------------------------
def dec(x):
    if isinstance(x, list):
        return tuple(x)          # an error value: ['e', '#DIV/0!']
    if x is None:
        return BLANK
    if isinstance(x, bool):
        return B(x)
    if isinstance(x, (int, float)):
        return N(x)
    return T(x)


def show(v):
    return 'blank' if v[0] == 'blank' else literal(v)


def showvec(vec):
    return '|'.join(show(v) for v in vec)


def kinds(vec):
    return ''.join(sorted({v[0][0] for v in vec}))


def lit_table(tbl):
    if any(v[0] == 'blank' for row in tbl for v in row):
        return None
    return '{%s}' % ';'.join(','.join(literal(v) for v in row) for row in tbl)


def area(col0, row0, tbl):
    if len(tbl) == 1 and len(tbl[0]) == 1:
        return '%s%d' % (COLS[col0], row0)
    return '%s%d:%s%d' % (COLS[col0], row0, COLS[col0 + len(tbl[0]) - 1], row0 + len(tbl) - 1)


def place(tbl, spell, inputs, col0=0, row0=1):
    """formula text of a table: referenced range (values go into inputs) or array constant"""
    if spell.startswith('lit'):
        return lit_table(tbl)
    a = area(col0, row0, tbl)
    inputs[a] = ('arr', tbl)
    return a


def scalar(v, how, inputs, cell='J9'):
    s = literal(v) if how == 'lit' else None
    if s is None:
        inputs[cell] = v
        return cell
    return s


def as_table(vec, orient):
    return [list(vec)] if orient == 'row' else [[v] for v in vec]


def okind(got):
    return got[1] if got[0] in ('e', 'BAD') else got[0]


# -- alphabets -----------------------------------------------------------------
def sorted_vectors():
    """all strictly ascending vectors of length <= 4: subsets of each typed
    alphabet and their typed-block concatenations"""
    sub = lambda xs: [list(c) for k in range(len(xs) + 1) for c in itertools.combinations(xs, k)]
    out = []
    for n in sub([1, 3, 5, 7]):
        for t in sub(['b', 'd', 'f']):
            for b in sub([False, True]):
                v = n + t + b
                if 1 <= len(v) <= 4:
                    out.append(v)
    return out


EXACT_SYM = [1, 2, 'a', 'A', 'b*', True, None]
LK_APPROX = [0, 1, 2, 3, 4, 5, 6, 7, 8, 'a', 'b', 'B', 'c', 'd', 'e', 'f', 'g', '3', '*', '?', False, True, None]
LK_EXACT = [1, 2, 3, 'a', 'A', 'b*', 'b~*', 'B?', '?', '*', '~*', 'c', 'empty', '1', True, False, None]
NUM6, TXT6, MIX6 = [1, 3, 5, 7, 9, 11], ['b', 'd', 'f', 'h', 'j', 'l'], [1, 3, 'b', 'd', False, True]
MIXR = {1: ['b'], 2: [1, 'b'], 3: [1, 'b', True], 4: [1, 3, 'b', True], 5: [1, 3, 'b', 'd', True], 6: MIX6}
EX6A, EX6B = [2, 'a', None, 'A', 1, 'b*'], [1, 'A', 1, 'a', True, 2]
RL = {'TRUE': True, 'omit': True, '1': True, 'FALSE': False, '0': False}

POOL_Q = [1, 2, 'a', 'A', 'B', 'ab', True, None]
POOL_T = POOL_Q + [-1, 'b*', False]
CRITERIA = [
    1, 2, 1.5, '1', '2', '=1', '<>1', '<1', '>1', '<=1', '>=1', '<2', '>=2', '<>2',
    'a', 'A', 'ab', 'c', '=a', '<>a', '<a', '>a', '<=a', '>=a', '>A', '<=ab', '<b', '>=B',
    'a*', 'A*', '?', '??', '*', '*b', 'b~*', '~*', '=a*', '<>a*', '<>*', '=?', '<>?',
    '', '=', '<>', None,
    True, False, 'TRUE', '=TRUE', '<>TRUE', '<TRUE', '>FALSE', '<=TRUE', '>=FALSE', '<=FALSE',
]
SUMR = {'sum': [10, 200, 3000], 'mix1': [10, 'x', None], 'mix2': [True, 200, 3000], 'zero': [0, 0, 5], 'neg': [-5, 5, 0]}


def posval(i, j, blanks=True):
    """position-coded table content (1-based i, j): mostly numbers 10*i+j, some
    text, logicals and blanks so that the kind of the result is observable"""
    k = (3 * i + j) % 7
    if k == 0:
        return T('r%dc%d' % (i, j))
    if k == 5:
        return B((i + j) % 2 == 0)
    if k == 3 and blanks:
        return BLANK
    return N(10 * i + j)


# -- MATCH ---------------------------------------------------------------------
def run_match(case):
    from xl.evalcell import eval_formula
    _, rawvec, mode, spell, vsp = case
    vec = [dec(x) for x in rawvec]
    m = {1: 1, 'omit': 1, -1: -1, 0: 0}[mode]
    execs, ocs, fails = 0, [], []
    for raw in (LK_EXACT if m == 0 else LK_APPROX):
        key, inputs = dec(raw), {}
        t = place(as_table(vec, spell[4:]), spell, inputs)
        if t is None:
            ocs.append('skip:blank-literal')
            continue
        f = '=MATCH(%s,%s%s)' % (scalar(key, vsp, inputs), t, '' if mode == 'omit' else ',%d' % mode)
        exp = L.match(key, vec, m)
        got = eval_formula(f, inputs)
        execs += 1
        ocs.append('MATCH:%s:%s' % (mode, okind(got) if got[0] != 'n' else 'pos'))
        if not L.accepted(got, exp):
            fails.append(Fail('match', got=got, exp=sorted(exp), fn='MATCH', mode=mode, spell=spell, key=show(key), keyk=key[0],
                              wild=key[0] == 't' and L.has_wild(key[1]), hasblank=BLANK in vec, vec=showvec(vec), veck=kinds(vec), n=len(vec), formula=f))
    return result(execs, ocs, fails)


def match_cases(tier):
    vs = sorted_vectors()
    spells = ['ref-row', 'ref-col', 'lit-row', 'lit-col']
    vsps = ['lit', 'cell'] if tier == 'thorough' else ['lit']
    for v in vs:
        for sp in spells:
            if tier == 'quick' and sp == 'lit-col':
                continue
            for vsp in vsps:
                yield ['MATCH', v, 1, sp, vsp]
                if tier == 'thorough' or sp == 'ref-row':
                    yield ['MATCH', v, 'omit', sp, vsp]
                yield ['MATCH', v[::-1], -1, sp, vsp]
    # an error value among the keys, in a cell the search does not need: it is not an answer and not a reason to fail
    for n in range(1, 4):
        for v in itertools.product([1, 2, 'a', True], repeat=n):
            for pos in range(n + 1):
                for err in (['e', '#DIV/0!'], ['e', '#N/A']):
                    w = list(v[:pos]) + [err] + list(v[pos:])
                    for sp in (['ref-row', 'ref-col', 'lit-row'] if tier == 'quick' else spells):
                        yield ['MATCH', w, 0, sp, 'lit']
    for n in range(1, 5):
        for v in itertools.product(EXACT_SYM, repeat=n):
            for sp in spells:
                if tier == 'quick' and (sp == 'lit-col' or (n == 4 and sp != 'ref-row')):
                    continue
                if sp.startswith('lit') and None in v:
                    continue
                for vsp in vsps:
                    yield ['MATCH', list(v), 0, sp, vsp]


# -- INDEX ---------------------------------------------------------------------
def run_index(case):
    from xl.evalcell import eval_formula
    _, r, c, spell, form = case
    tbl = [[posval(i, j, spell == 'ref') for j in range(1, c + 1)] for i in range(1, r + 1)]
    execs, ocs, fails = 0, [], []
    js = range(-1, c + 2) if form == 'ij' else [None]
    for i in range(-1, max(r, c) + 2 if form == 'i' else r + 2):
        for j in js:
            inputs = {}
            t = place(tbl, spell, inputs)
            f = '=INDEX(%s,%d%s)' % (t, i, '' if j is None else ',%d' % j)
            exp = L.index(tbl, i, j, is_ref=spell == 'ref')
            got = eval_formula(f, inputs)
            execs += 1
            if exp is None:
                ocs.append('INDEX:not-judged')
                continue
            ocs.append('INDEX:%s:%s' % (form, okind(got)))
            if not L.accepted(got, exp):
                zero = 'i' * (i == 0) + 'j' * (j == 0)
                fails.append(Fail('index', got=got, exp=sorted(exp), fn='INDEX', spell=spell, form=form, shape='%dx%d' % (r, c),
                                  i=i, j=j, zero=zero, vector=1 in (r, c), formula=f))
    return result(execs, ocs, fails)


def index_cases(tier):
    m = 6 if tier == 'thorough' else 4
    for r in range(1, m + 1):
        for c in range(1, m + 1):
            for spell in ('ref', 'lit'):
                for form in ('ij', 'i'):
                    yield ['INDEX', r, c, spell, form]


# -- VLOOKUP / HLOOKUP ---------------------------------------------------------------
def xl_table(fn, keys, other, blanks):
    """keys down the first column (VLOOKUP) / along the first row (HLOOKUP), position-coded elsewhere"""
    n = len(keys)
    if fn == 'VLOOKUP':
        return [[keys[i - 1] if j == 1 else posval(i, j, blanks) for j in range(1, other + 1)] for i in range(1, n + 1)]
    return [[keys[j - 1] if i == 1 else posval(i, j, blanks) for j in range(1, n + 1)] for i in range(1, other + 1)]


def run_xlookup(case):
    from xl.evalcell import eval_formula
    fn, rawvec, other, rl, spell, idxs = case
    keys = [dec(x) for x in rawvec]
    tbl = xl_table(fn, keys, other, spell == 'ref')
    approx = RL[rl]
    ref = L.vlookup if fn == 'VLOOKUP' else L.hlookup
    execs, ocs, fails = 0, [], []
    for raw in (LK_APPROX if approx else LK_EXACT):
        key = dec(raw)
        for idx in (range(0, other + 2) if idxs == 'all' else idxs):
            inputs = {}
            t = place(tbl, spell, inputs)
            if t is None:
                ocs.append('skip:blank-literal')
                continue
            f = '=%s(%s,%s,%d%s)' % (fn, scalar(key, 'lit', inputs), t, idx, '' if rl == 'omit' else ',' + rl)
            exp = ref(key, tbl, idx, approx)
            got = eval_formula(f, inputs)
            execs += 1
            ocs.append('%s:%s:%s' % (fn, 'approx' if approx else 'exact', okind(got)))
            if not L.accepted(got, exp):
                m = L.match(key, keys, 1 if approx else 0)
                fails.append(Fail('xlookup', got=got, exp=sorted(exp), fn=fn, rl=rl, spell=spell, key=show(key), keyk=key[0],
                                  vec=showvec(keys), veck=kinds(keys), hasblank=BLANK in keys, n=len(keys), other=other, idx=idx,
                                  idxk='zero' if idx == 0 else 'over' if idx > other else 'in', found=m != {NA}, formula=f))
    return result(execs, ocs, fails)


def xlookup_cases(tier):
    m = 6 if tier == 'thorough' else 4
    for fn in ('VLOOKUP', 'HLOOKUP'):
        for n in range(1, m + 1):
            for other in range(1, m + 1):
                for spell in ('ref', 'lit'):
                    for rl in (RL if tier == 'thorough' else ['TRUE', 'omit', 'FALSE']):
                        vecs = [NUM6[:n], TXT6[:n], MIXR[n]] if RL[rl] else [EX6A[:n], EX6B[:n]]
                        if tier == 'quick' and spell == 'lit':
                            vecs = vecs[-1:]
                        for v in vecs:
                            if spell == 'lit' and None in v:
                                continue
                            yield [fn, v, other, rl, spell, 'all']
        for v in sorted_vectors():            # every sorted key vector through the V/HLOOKUP argument path
            for rl in (['TRUE', 'omit'] if tier == 'thorough' else ['TRUE']):
                for spell in (['ref', 'lit'] if tier == 'thorough' else ['ref']):
                    yield [fn, v, 2, rl, spell, [2]]


# -- LOOKUP --------------------------------------------------------------------
def run_lookup(case):
    from xl.evalcell import eval_formula
    _, rawvec, form, spell = case
    keys = [dec(x) for x in rawvec]
    n = len(keys)
    blanks = spell == 'ref'
    if form.startswith('arr'):                # arr:RxC  2-D array form, keys on the searched edge
        r, c = map(int, form[4:].split('x'))
        if c > r:
            ktab = [[keys[j - 1] if i == 1 else posval(i, j, blanks) for j in range(1, c + 1)] for i in range(1, r + 1)]
        else:
            ktab = [[keys[i - 1] if j == 1 else posval(i, j, blanks) for j in range(1, c + 1)] for i in range(1, r + 1)]
        rtab = None
    else:                                     # v2:<o> | v3:<o><o>  vector forms, o in r(ow) c(olumn)
        ktab = as_table(keys, 'row' if form[3] == 'r' else 'col')
        rtab = None
        if form.startswith('v3'):
            res = [posval(2, j, blanks) for j in range(1, n + 1)]
            rtab = as_table(res, 'row' if form[4] == 'r' else 'col')
    execs, ocs, fails = 0, [], []
    for raw in LK_APPROX:
        key, inputs = dec(raw), {}
        tk = place(ktab, spell, inputs)
        tr = None if rtab is None else place(rtab, spell, inputs, col0=0 if form[4] == 'r' else 7, row0=8 if form[4] == 'r' else 1)
        if tk is None or (rtab is not None and tr is None):
            ocs.append('skip:blank-literal')
            continue
        f = '=LOOKUP(%s,%s%s)' % (scalar(key, 'lit', inputs), tk, '' if tr is None else ',' + tr)
        exp = L.lookup(key, ktab, rtab)
        got = eval_formula(f, inputs)
        execs += 1
        ocs.append('LOOKUP:%s:%s' % (form[:3], okind(got)))
        if not L.accepted(got, exp):
            fails.append(Fail('lookup', got=got, exp=sorted(exp), fn='LOOKUP', form=form, spell=spell, key=show(key), keyk=key[0],
                              vec=showvec(keys), veck=kinds(keys), n=n, found=L.match(key, keys, 1) != {NA}, formula=f))
    return result(execs, ocs, fails)


def lookup_cases(tier):
    m = 6 if tier == 'thorough' else 4
    for v in sorted_vectors():
        for form in ('v2:r', 'v2:c', 'v3:rr', 'v3:rc', 'v3:cr', 'v3:cc'):
            for spell in ('ref', 'lit'):
                if tier == 'quick' and (spell == 'lit' or form in ('v2:c', 'v3:cr')):
                    continue
                yield ['LOOKUP', v, form, spell]
    for r in range(2, m + 1):
        for c in range(2, m + 1):
            n = c if c > r else r
            for v in (NUM6[:n], TXT6[:n], MIXR[n]):
                for spell in ('ref', 'lit'):
                    yield ['LOOKUP', v, 'arr:%dx%d' % (r, c), spell]
    if tier == 'quick':                       # array-constant spelling of the vector forms on the typed representatives
        for n in range(1, 5):
            for v in (NUM6[:n], TXT6[:n], MIXR[n]):
                for form in ('v2:r', 'v2:c', 'v3:rr', 'v3:rc', 'v3:cr', 'v3:cc'):
                    yield ['LOOKUP', v, form, 'lit']


# -- COUNTIF / SUMIF / AVERAGEIF -----------------------------------------------------
_PYOP = {'=': lambda a, b: a == b, '<>': lambda a, b: a != b, '<': lambda a, b: a < b, '>': lambda a, b: a > b,
         '<=': lambda a, b: a <= b, '>=': lambda a, b: a >= b}


def crit_features(rng, crit):
    """input-side descriptors of one (range, criterion) pair, used to tell root causes apart:
    op / ok = operator and operand kind; cs = some text element compares differently with and without
    case; hashpair = the range holds a number and a logical that are equal as Python values (1/TRUE, 0/FALSE)"""
    p = L.parse_criterion(crit)
    if p is None:
        return {}
    op, operand, pattern = p
    ok = 'empty' if operand == T('') else 'pattern' if pattern else operand[0]
    cs = ok == 't' and any(_PYOP[op](v[1], operand[1]) != _PYOP[op](v[1].upper(), operand[1].upper()) for v in rng if v[0] == 't')
    hp = any(N(x) in rng and B(bool(x)) in rng for x in (0, 1))
    return {'op': op, 'ok': ok, 'cs': cs, 'hashpair': hp, 'hasblank': BLANK in rng}


def run_criteria(case):
    from xl.evalcell import eval_formula
    fn, rawvec, form, orient, csp = case
    rng = [dec(x) for x in rawvec]
    n = len(rng)
    sumr = None if form == 'nosum' or fn == 'COUNTIF' else [dec(x) for x in SUMR[form][:n]]
    ref = {'COUNTIF': L.countif, 'SUMIF': L.sumif, 'AVERAGEIF': L.averageif}[fn]
    execs, ocs, fails = 0, [], []
    for raw in CRITERIA:
        crit, inputs = dec(raw), {}
        a = place(as_table(rng, orient), 'ref', inputs)
        args = [a, scalar(crit, csp, inputs)]
        if sumr is not None:
            args.append(place(as_table(sumr, orient), 'ref', inputs, col0=0 if orient == 'row' else 1, row0=2 if orient == 'row' else 1))
        f = '=%s(%s)' % (fn, ','.join(args))
        exp = ref(rng, crit) if sumr is None else ref(rng, crit, sumr)
        got = eval_formula(f, inputs)
        execs += 1
        if exp is None or (raw is None and any(x[0] == 'n' and x[1] == 0 for x in rng)):
            ocs.append('%s:not-judged' % fn)        # a blank criterion against zeros: the statement does not say whether blank selects 0
            continue
        ft = crit_features(rng, crit)
        ocs.append('%s:%s:%s:%s' % (fn, ft['op'], ft['ok'], okind(got)))
        if not L.accepted(got, exp):
            fails.append(Fail('criteria', got=got, exp=sorted(exp), fn=fn, form=form, orient=orient, csp=csp, crit=show(crit), critk=crit[0],
                              rng=showvec(rng), rngk=kinds(rng), formula=f, **ft))
    return result(execs, ocs, fails)


MAIN = [('COUNTIF', '-', 'row', 'lit'), ('SUMIF', 'sum', 'row', 'lit'), ('AVERAGEIF', 'sum', 'row', 'lit')]
SECOND = [('COUNTIF', '-', 'col', 'lit'), ('COUNTIF', '-', 'row', 'cell'), ('SUMIF', 'nosum', 'row', 'lit'), ('SUMIF', 'sum', 'col', 'lit'),
          ('SUMIF', 'mix1', 'row', 'lit'), ('AVERAGEIF', 'nosum', 'row', 'lit'), ('AVERAGEIF', 'sum', 'col', 'cell'), ('AVERAGEIF', 'mix2', 'row', 'lit')]
THIRD = [('SUMIF', 'sum', 'row', 'cell'), ('SUMIF', 'mix2', 'row', 'lit'), ('AVERAGEIF', 'mix1', 'row', 'lit'), ('AVERAGEIF', 'sum', 'col', 'lit'),
         ('SUMIF', 'nosum', 'col', 'lit'), ('AVERAGEIF', 'nosum', 'col', 'lit'), ('COUNTIF', '-', 'col', 'cell')]


def criteria_cases(tier):
    """quick: every ordered vector of length <= 2 and every multiset of size 3 over the 8-value pool;
    thorough: every ordered vector of length <= 3 over the 11-value pool.  The three main forms run on
    all of them, the other spellings / sum-range forms on the vectors of length <= 2."""
    pool = POOL_T if tier == 'thorough' else POOL_Q
    for n in (1, 2, 3):
        vs = itertools.product(pool, repeat=n)
        if tier == 'quick' and n == 3:
            vs = itertools.combinations_with_replacement(pool, 3)
        for v in vs:
            for fn, form, orient, csp in MAIN + (SECOND + (THIRD if tier == 'thorough' else []) if n < 3 else []):
                yield [fn, list(v), form, orient, csp]
    # selections whose elements are all zero, or cancel out: the average of such a selection is 0, not 'nothing selected'
    for n in (1, 2, 3):
        for v in itertools.product([0, 1, 'a'], repeat=n):
            for fn, form in (('AVERAGEIF', 'nosum'), ('SUMIF', 'nosum'), ('COUNTIF', '-')):
                if 0 in v:
                    yield [fn, list(v), form, 'row', 'lit']
        for v in itertools.product([1, 2, 'a'], repeat=n):
            for fn in ('AVERAGEIF', 'SUMIF'):
                for form in ('zero', 'neg'):
                    yield [fn, list(v), form, 'row', 'lit']


# -- an array of criteria in ONE call: element j must be what criterion j gives alone ----------------------
CRIT2 = [1, '1', '>1', '<>1', 'a', '<a', '>=a', 'a*', '<>a*', True, '<>', '10']
POOL_A = [1, '1', 'a', 'A', True, '10', None]


def _is_num(s):
    try:
        float(s)
        return True
    except ValueError:
        return False


def run_criteria_array(case):
    from xl.evalcell import eval_formula
    fn, rawvec, form, orient = case
    fn = fn[:-2]
    rng = [dec(x) for x in rawvec]
    n = len(rng)
    sumr = None if form == 'nosum' or fn == 'COUNTIF' else [dec(x) for x in SUMR[form][:n]]
    ref = {'COUNTIF': L.countif, 'SUMIF': L.sumif, 'AVERAGEIF': L.averageif}[fn]
    execs, ocs, fails, single = 0, [], [], {}
    for r1, r2 in itertools.product(CRIT2, repeat=2):
        c1, c2 = dec(r1), dec(r2)
        inputs = {}
        a = place(as_table(rng, orient), 'ref', inputs)
        args = [a, '{%s,%s}' % (literal(c1), literal(c2))]
        if sumr is not None:
            args.append(place(as_table(sumr, orient), 'ref', inputs, col0=0 if orient == 'row' else 1, row0=2 if orient == 'row' else 1))
        f = '=%s(%s)' % (fn, ','.join(args))
        got = eval_formula(f, inputs, ref='K9:L9', scalar=False)
        execs += 1
        if not isinstance(got, list) or len(got) != 1 or len(got[0]) != 2:
            fails.append(Fail('criteria-array', got=got, exp='a 1x2 array', fn=fn, form=form, orient=orient, crit=show(c1) + '|' + show(c2), rng=showvec(rng), rngk=kinds(rng), formula=f, pos=-1))
            continue
        numtext = any(v[0] == 't' and _is_num(v[1]) for v in rng)
        for j, c in enumerate((c1, c2)):
            g = got[0][j]
            ocs.append('%s[]:%d:%s' % (fn, j, okind(g)))
            # (a) the same criterion alone, through the same library (lifting must not change an element)
            key = literal(c)
            if key not in single:
                single[key] = eval_formula('=%s(%s)' % (fn, ','.join([args[0], key] + args[2:])), inputs, ref='K9')
                execs += 1
            if g != single[key]:
                fails.append(Fail('criteria-array-differs-from-single', got=g, exp=single[key], fn=fn, form=form, orient=orient, crit=show(c1) + '|' + show(c2), pos=j, critk=c[0],
                                  rng=showvec(rng), rngk=kinds(rng), formula=f))
                continue
            # (b) the reference, where the range holds no numeric text (how such text meets a numeric criterion is not fixed by the statement)
            exp = None if numtext else (ref(rng, c) if sumr is None else ref(rng, c, sumr))
            if exp is not None and not L.accepted(g, exp):
                ft = crit_features(rng, c)
                fails.append(Fail('criteria-array', got=g, exp=sorted(exp), fn=fn, form=form, orient=orient, crit=show(c1) + '|' + show(c2), pos=j, critk=c[0],
                                  rng=showvec(rng), rngk=kinds(rng), formula=f, **ft))
    return result(execs, ocs, fails[:20])


# -- wild cards next to escaped wild cards, over texts that hold the wild-card characters themselves ------------------
WILD_TEXTS = ['a?', 'a~?', 'ab', '?', 'a*', '*', 'a~*b', 'a', '~', 'ab?']
WILD_CRIT = ['*~?', '~**', '?~*', '=*~?', '<>*~?', 'a~?', 'a~**', '~?', '~*', '*~**', '?~?', '~~', 'a~~*', '*~', 'a?~?', '<>~**', '=?~*', '~?*', '*~?*']


def wild_cases(tier):
    for n in (1, 2, 3):
        vs = itertools.product(WILD_TEXTS, repeat=n) if n < 3 else itertools.combinations(WILD_TEXTS, 3)
        for v in vs:
            for fn, form in (('COUNTIF', '-'), ('SUMIF', 'sum'), ('AVERAGEIF', 'sum')):
                if n == 3 and fn != 'COUNTIF' and tier == 'quick':
                    continue
                yield ['WILD', fn, list(v), form]


def run_wild(case):
    from xl.evalcell import eval_formula
    _, fn, rawvec, form = case
    rng = [dec(x) for x in rawvec]
    n = len(rng)
    sumr = None if fn == 'COUNTIF' else [dec(x) for x in SUMR[form][:n]]
    ref = {'COUNTIF': L.countif, 'SUMIF': L.sumif, 'AVERAGEIF': L.averageif}[fn]
    execs, ocs, fails = 0, [], []
    for raw in WILD_CRIT:
        crit, inputs = dec(raw), {}
        a = place(as_table(rng, 'row'), 'ref', inputs)
        for csp in ('lit', 'cell'):
            args = [a, scalar(crit, csp, inputs)]
            if sumr is not None:
                args.append(place(as_table(sumr, 'row'), 'ref', inputs, col0=0, row0=2))
            f = '=%s(%s)' % (fn, ','.join(args))
            exp = ref(rng, crit) if sumr is None else ref(rng, crit, sumr)
            got = eval_formula(f, inputs)
            execs += 1
            if exp is None:
                ocs.append('%s:not-judged' % fn)
                continue
            ocs.append('%s:wild:%s' % (fn, okind(got)))
            if not L.accepted(got, exp):
                fails.append(Fail('criteria', got=got, exp=sorted(exp), fn=fn, form=form, orient='row', csp=csp, crit=show(crit), critk='t', rng=showvec(rng), rngk='t', formula=f, wild=True))
    return result(execs, ocs, fails[:20])


def criteria_array_cases(tier):
    for n in ((1, 2, 3) if tier == 'quick' else (1, 2, 3, 4)):
        for v in itertools.product(POOL_A, repeat=n):
            for fn, form in (('COUNTIF[]', '-'), ('SUMIF[]', 'sum'), ('AVERAGEIF[]', 'sum'), ('SUMIF[]', 'nosum')):
                if n > 3 and form != '-':
                    continue
                yield [fn, list(v), form, 'row']
                if n == 2:
                    yield [fn, list(v), form, 'col']


# -- driver --------------------------------------------------------------------
RUNNERS = {'MATCH': run_match, 'INDEX': run_index, 'VLOOKUP': run_xlookup, 'HLOOKUP': run_xlookup, 'LOOKUP': run_lookup,
           'COUNTIF': run_criteria, 'SUMIF': run_criteria, 'AVERAGEIF': run_criteria,
           'WILD': run_wild, 'COUNTIF[]': run_criteria_array, 'SUMIF[]': run_criteria_array, 'AVERAGEIF[]': run_criteria_array}


def run_case(case):
    return RUNNERS[case[0]](case)


def run(ctx):
    judged, per_fn, bad = L.audit()
    if bad:
        import sys
        for b in bad[:20]:
            sys.stderr.write('ORACLE-AUDIT-DISAGREEMENT %s\n' % (b,))
        sys.stderr.write('ORACLE-ERROR ref/lookup.py disagrees with %d Excel-cached value(s); no verdict\n' % len(bad))
        sys.exit(2)
    ctx.explore(run_case, match_cases(ctx.tier), chunksize=32, label='MATCH')
    ctx.explore(run_case, index_cases(ctx.tier), chunksize=2, label='INDEX')
    ctx.explore(run_case, xlookup_cases(ctx.tier), chunksize=8, label='VLOOKUP/HLOOKUP')
    ctx.explore(run_case, lookup_cases(ctx.tier), chunksize=16, label='LOOKUP')
    ctx.explore(run_case, criteria_cases(ctx.tier), chunksize=16, label='COUNTIF/SUMIF/AVERAGEIF')
    ctx.explore(run_case, criteria_array_cases(ctx.tier), chunksize=8, label='criteria_arrays')
    ctx.explore(run_case, wild_cases(ctx.tier), chunksize=8, label='escaped_and_live_wild_cards')
    return {'oracle_audit': {'corpus_formulas_judged': judged, 'per_function': per_fn, 'disagreements': 0},
            'sorted_key_vectors': len(sorted_vectors()), 'exact_key_vectors': sum(7 ** n for n in range(1, 5)),
            'criteria': len(CRITERIA), 'max_table': '6x6' if ctx.tier == 'thorough' else '4x4'}
