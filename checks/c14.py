"""C14 Unresolvable functions and references degrade locally to error values.
Engine E3 (fault sets): every subset of 8 injected faults at every position of a
dependency chain, on the file path (and the 4 expressible ones on the dict path)."""
import itertools, os
from mc.core import Fail, result

LEVEL = 'fault_enumeration'
MANIFEST = {
    'engine': 'E3',
    'category': 'fault_enumeration',
    'technique': 'exhaustive enumeration of all fault subsets x injection positions on real files and dictionaries, faulted and unaffected cells compared with the fault-free workbook',
    'text': 'A workbook with a 3-cell dependency chain, an independent chain, a range aggregate and IFERROR/ISERROR/IFNA dependents is written to disk with every one of the 2^12 subsets '
            'of injected faults (unknown function, _xlfn-prefixed unknown function, absent sheet, absent workbook file, zero-byte workbook file, two different undefined names, #REF! literal, '
            'external-link index without target, absent sheets of an existing linked workbook) at the head, middle and leaf of the chain (quick: all subsets at the middle, singles and pairs elsewhere), loaded with '
            'loads().finish() and calculated; loading/calculation must not raise, the faulted cell and its dependents must be error values of the stated kind, '
            'handlers must intercept them, and every cell that does not depend on the fault must equal its fault-free value. The five faults expressible in a dictionary are '
            'enumerated (2^5 x positions) through from_dict as well. Thirteen further spellings of an unknown function (dotted names whose parts are implemented functions, _xlfn-prefixed dotted names, names extending an implemented one) are injected alone and next to every other fault.' ' Later additions: 13 spellings of unknown functions (also with error arguments), #REF! under reference operators, names leading to undefined names, other file names of the loaded book, a linked workbook with its own names and a dangling sheet, folder-qualified references to a workbook that exists elsewhere only.',
    'note': 'Fault-free values are computed by hand-written arithmetic in the check (the chain is linear). With several faults in one cell either error kind is accepted.',
}
RULE = 'case = (path, position, fault subset); non-trivial = subset non-empty and loaded+calculated; distinct = case key'
ASSUMPTIONS = ['one workbook shape; fault kinds are those the statement lists', 'a #REF! literal that is an operand of a union, intersection or range operator must give an error and stay local; which error is not fixed (the library answers #VALUE!)']

FAULTS = ['func', 'xlfn', 'sheet', 'book', 'unreadable', 'name', 'ref', 'link', 'xsheetZ', 'xsheetA', 'name2', 'xlslink']
DICT_FAULTS = ['func', 'xlfn', 'name', 'ref', 'name2']
EXPR = {
    'func': 'NOSUCHFUNC(A1)', 'xlfn': '_xlfn.NEWFUNC(A1)', 'sheet': 'MISSING!A1', 'book': "'[nofile.xlsx]Q'!A1",
    'unreadable': "'[empty.xlsx]Q'!A1", 'name': 'UNDEFNAME', 'ref': '#REF!', 'link': '[7]Q!A1',
    # an absent sheet of an EXISTING, readable linked workbook (c.xlsx has sheets Alpha and Beta), sorting after / before them
    'xsheetZ': "'[c.xlsx]Zeta'!A1", 'xsheetA': "'[c.xlsx]Aaa'!A1", 'name2': 'OTHERNAME',
    # the workbook's link table is [legacy.xls (not loadable), c.xlsx]: [1] is unresolvable, [2] is c.xlsx
    'xlslink': '[1]Sheet1!A1',
}
# other spellings of an unknown function: dotted names whose parts are implemented functions, names that extend an implemented one
ALT = {'name': ['ALIAS', 'ALIAS2', 'ALIAS*1+ALIAS2'],       # defined names of the workbook whose definitions lead to a name that does not exist
       'ref': ['SUM((A1:A2,#REF!))', 'SUM(A1:A2 #REF!)', 'SUM(A1:#REF!)', 'S!#REF!', 'SUM(#REF!)', "'[b.xlsx]S'!#REF!"],
       'book': ["'nodir/[c.xlsx]Alpha'!A1", "'sub/deeper/[c.xlsx]Beta'!A1", "'nodir/[b.xlsx]S'!A1"],      # a folder that does not exist, naming a workbook that exists elsewhere
       'func': ['NOSUCHFUNC(#REF!)', 'NOSUCHFUNC(A1/0)', 'NOSUCHFUNC(1,#N/A)', 'FOO.SUM(A1)', 'SUM.FOO(A1)', 'SUMX(A1)', 'XSUM(A1)', 'CEILING.NOSUCH(A1,1)', 'T.NOSUCH(A1)'],
       'xlfn': ['_xlfn.ECMA.CEILING(A1,1)', '_xlfn.CONFIDENCE.T(A1,1,3)', '_xlfn._xlws.NEWSORT(A1)', '_xlfn.SUM.X(A1)', '_xlfn.X.SUM(A1)', '_xlfn.XSUM(A1)', '_XLFN.newfunc(A1)']}
KIND = {'func': ['#NAME?'], 'xlfn': ['#NAME?'], 'sheet': ['#REF!'], 'book': ['#REF!'], 'unreadable': ['#REF!'], 'name': ['#REF!', '#NAME?'],
        'ref': ['#REF!'], 'link': ['#REF!', '#NAME?'], 'xsheetZ': ['#REF!'], 'xsheetA': ['#REF!'], 'name2': ['#REF!', '#NAME?'], 'xlslink': ['#REF!', '#NAME?']}
POS = ['head', 'middle', 'leaf']
P = "'[b.xlsx]S'!"


def formulas_for(pos, faults, qualify=False, alt=None):
    """cell -> formula text. chain C1 -> C2 -> C3; clean chain B1 -> B2; dependents D*."""
    q = P if qualify else ''
    EXPR = dict(globals()['EXPR'])
    for k, i in (alt or {}).items():
        EXPR[k] = ALT[k][i]
    extra = ''.join('+' + (EXPR[f] if not qualify else EXPR[f].replace('A1', P + 'A1').replace('UNDEFNAME', "'[b.xlsx]'!UNDEFNAME").replace('OTHERNAME', "'[b.xlsx]'!OTHERNAME").replace('ALIAS', "'[b.xlsx]'!ALIAS")) for f in faults)
    c = {
        'B1': '=%sA1+%sA2' % (q, q), 'B2': '=%sB1*2' % q,
        'C1': '=%sA1+10' % q, 'C2': '=%sC1+1' % q, 'C3': '=%sC2+1' % q,
    }
    tgt = {'head': 'C1', 'middle': 'C2', 'leaf': 'C3'}[pos]
    c[tgt] += extra
    c.update({
        'D1': '=SUM(%sC1:C3)' % q, 'D2': '=IFERROR(%sC3,7)' % q, 'D3': '=ISERROR(%sC3)' % q, 'D4': '=IFERROR(%s%s,7)+%sB2' % (q, tgt, q),
        'D5': '=IF(ISERR(%sC3),"e","v")' % q, 'D6': '=%sC1&"|"' % q, 'E1': '=%sB2+%sA2' % (q, q),
    })
    # every fault intercepted on its own inside ONE formula
    terms = [EXPR[f] if not qualify else EXPR[f].replace('A1', P + 'A1').replace('UNDEFNAME', "'[b.xlsx]'!UNDEFNAME").replace('OTHERNAME', "'[b.xlsx]'!OTHERNAME").replace('ALIAS', "'[b.xlsx]'!ALIAS") for f in faults]
    c['D7'] = '=' + '+'.join(['IFERROR(%s,3)' % t for t in terms] + ['%sA1' % q])
    if not qualify:
        # references into the existing linked workbook: never depend on any fault
        c['E2'] = "='[c.xlsx]Alpha'!A1+'[c.xlsx]Beta'!A1"
        c['E3'] = "=SUM('[c.xlsx]Alpha'!A1:A2)"
        c['E4'] = '=[2]Alpha!A1*2'            # numeric external-link form of the readable linked book
        # a defined name of the linked workbook, used by cells that sort before and after the faulted ones
        # (the linked workbook has a defined name used by two of its own cells: a healthy one, and one that also refers to a sheet the
        #  linked workbook does not have; the faulty one sorts after the healthy one and is completed first)
        c['A3'] = "='[c.xlsx]Alpha'!B1+0"
        c['E5'] = "=IFERROR('[c.xlsx]Alpha'!C9,7)+'[c.xlsx]Alpha'!B2"

    return c, tgt


ANY_ERROR = ['#NULL!', '#DIV/0!', '#VALUE!', '#REF!', '#NAME?', '#NUM!', '#N/A']


def expected(pos, faults, path='file', alt=None):
    """cell -> ('n', v) | ('t', s) | ('b', x) | ('err', [kinds])"""
    tgt_i = POS.index(pos)
    chain = [11.0, 12.0, 13.0]
    errs = sorted({k for f in faults for k in KIND[f]}) if len(faults) != 1 else KIND[faults[0]]
    if alt and 'ref' in alt:
        errs = ANY_ERROR          # a #REF! literal under a reference operator: an error, of a kind the statement does not fix
    exp = {'A1': ('n', 1.0), 'A2': ('n', 2.0), 'B1': ('n', 3.0), 'B2': ('n', 6.0), 'E1': ('n', 8.0)}
    for i, c in enumerate(['C1', 'C2', 'C3']):
        exp[c] = ('err', errs) if faults and i >= tgt_i else ('n', chain[i])
    bad = bool(faults)
    exp['D1'] = ('err', errs) if bad else ('n', 36.0)
    exp['D2'] = ('n', 7.0) if bad else ('n', 13.0)
    exp['D3'] = ('b', bad)
    exp['D4'] = ('n', 13.0) if bad else ('n', chain[tgt_i] + 6.0)
    # ISERR is false for #N/A only; our faults give #REF!/#NAME?
    exp['D5'] = ('t', 'e' if bad else 'v')
    exp['D6'] = ('err', errs) if bad and tgt_i == 0 else ('t', '11|')
    # an unimplemented function makes its whole cell #NAME? (only dependents can intercept it); every other
    # fault is an ordinary error value already inside the formula
    exp['D7'] = ('err', ['#NAME?']) if any(f in ('func', 'xlfn') for f in faults) else ('n', 3.0 * len(faults) + 1.0)
    if path == 'file':
        exp['E2'] = ('n', 70.0)
        exp['E3'] = ('n', 35.0)
        exp['E4'] = ('n', 60.0)
        exp['A3'] = ('n', 6.0)
        exp['E5'] = ('n', 47.0)
    return exp


def judge(sol, pos, faults, path, fails, alt=None, P=P):
    from xl.evalcell import classify
    import numpy as np
    exp = expected(pos, faults, path, alt)
    desc = dict(path=path, pos=pos, faults='+'.join(faults) or 'none', nfaults=len(faults), alt=str(alt))
    for c, e in exp.items():
        v = sol.get(P + c)
        if v is None:
            fails.append(Fail('missing-cell', got='absent', exp=str(e), cell=c, **desc))
            continue
        g = classify(np.asarray(v.value, object).ravel()[0])
        if e[0] == 'err':
            if g[0] != 'e':
                fails.append(Fail('fault-not-an-error', got=g, exp=e[1], cell=c, **desc))
            elif g[1] not in e[1]:
                fails.append(Fail('wrong-error-kind', got=g, exp=e[1], cell=c, **desc))
        elif g != e:
            cls = 'damage-not-local' if c in ('B1', 'B2', 'E1', 'E2', 'E3', 'E4', 'E5', 'A1', 'A2', 'A3') or (c.startswith('C') and e[0] == 'n') else 'dependent-wrong'
            fails.append(Fail(cls, got=g, exp=e, cell=c, **desc))


def run_case(case):
    path, pos, faults = case[:3]
    alt = case[3] if len(case) > 3 else None
    book = case[4] if len(case) > 4 else 'b.xlsx'       # the loaded workbook's file name (letter case as written on disk)
    import formulas
    from xl.wbspec import Scratch
    from xl.evalcell import exc_name
    fails = []
    desc = dict(path=path, pos=pos, faults='+'.join(faults) or 'none', nfaults=len(faults), alt=str(alt), book=book)
    try:
        if path == 'file':
            import openpyxl
            cells, _ = formulas_for(pos, faults, alt=alt)
            wb = openpyxl.Workbook()
            ws = wb.active
            ws.title = 'S'
            ws['A1'], ws['A2'] = 1, 2
            for c, f in cells.items():
                ws[c] = f
            from openpyxl.workbook.defined_name import DefinedName
            wb.defined_names['ALIAS'] = DefinedName('ALIAS', attr_text='OLD_RATE')
            wb.defined_names['ALIAS2'] = DefinedName('ALIAS2', attr_text='ALIAS')
            from openpyxl.packaging.relationship import Relationship
            from openpyxl.workbook.external_link.external import ExternalLink, ExternalBook, ExternalSheetNames
            for target, sheets in (('legacy.xls', ['Sheet1']), ('c.xlsx', ['Alpha', 'Beta'])):
                el = ExternalLink(externalBook=ExternalBook(sheetNames=ExternalSheetNames(sheetName=sheets)))
                el.file_link = Relationship(type='externalLinkPath', Target=target, TargetMode='External')
                wb._external_links.append(el)
            with Scratch() as d:
                wb.save(os.path.join(d, book))
                open(os.path.join(d, 'empty.xlsx'), 'wb').close()
                wc = openpyxl.Workbook()
                wa = wc.active
                wa.title = 'Alpha'
                wa['A1'], wa['A2'] = 30, 5
                wc.create_sheet('Beta')['A1'] = 40
                wd = wc.create_sheet('Data')           # reached only through the defined name CNAME
                wd['A1'], wd['A2'], wd['A3'] = 1, 2, 3
                wc.defined_names['CNAME'] = DefinedName('CNAME', attr_text='Data!$A$1:$A$3')
                wc.defined_names['CONE'] = DefinedName('CONE', attr_text='Beta!$A$1')
                wa['B1'], wa['B2'], wa['C9'] = '=SUM(CNAME)', '=CONE', '=SUM(CNAME)+Ghost!A1'
                wc.save(os.path.join(d, 'c.xlsx'))
                sol = formulas.ExcelModel().loads(os.path.join(d, book)).finish().calculate()
        else:
            cells, _ = formulas_for(pos, faults, qualify=True, alt=alt)
            d = {P + 'A1': 1, P + 'A2': 2, "'[b.xlsx]'!ALIAS": "='[b.xlsx]'!OLD_RATE", "'[b.xlsx]'!ALIAS2": "='[b.xlsx]'!ALIAS"}
            d.update({P + c: f for c, f in cells.items()})
            sol = formulas.ExcelModel().from_dict(d).calculate()
    except Exception as e:
        return result(1, ['escape'], [Fail('escape', got='%s:%s' % (exc_name(e), str(e)[:120]), exp='loads, finishes and calculates', **desc)])
    judge(sol, pos, faults, path, fails, alt, P="'[%s]S'!" % book)
    return result(1, ['%s:%s:%d-faults:%s' % (path, pos, len(faults), 'ok' if not fails else 'fail')], fails)


def cases(tier):
    for pos in POS:
        for r in range(0, len(FAULTS) + 1):
            for sub in itertools.combinations(FAULTS, r):
                if tier == 'quick' and pos != 'middle' and r > 2:
                    continue
                yield ['file', pos, list(sub)]
                # order of the faulty terms inside the cell: also the reverse
                if r == 2:
                    yield ['file', pos, list(sub)[::-1]]
        for r in range(0, len(DICT_FAULTS) + 1):
            for sub in itertools.combinations(DICT_FAULTS, r):
                yield ['dict', pos, list(sub)]
        # the loaded workbook under other file names (upper case, mixed case, blanks): singles and pairs of faults
        for book in ('B.XLSX', 'Budget 2024.xlsx', 'b.XLSX'):
            for r in (0, 1, 2):
                for sub in itertools.combinations(FAULTS, r):
                    if tier == 'quick' and r == 2 and pos != 'middle':
                        continue
                    yield ['file', pos, list(sub), None, book]
        # other spellings of the unknown function, alone and next to one other fault
        for k in ALT:
            for i in range(len(ALT[k])):
                for path, others in (('file', FAULTS), ('dict', DICT_FAULTS)):
                    if path == 'dict' and (k == 'name' or k not in DICT_FAULTS):
                        continue        # a name defined as another, undefined name is resolved by completion (file path) only
                    yield [path, pos, [k], {k: i}]
                    for o in others:
                        if o != k and (tier != 'quick' or pos == 'middle'):
                            yield [path, pos, sorted([k, o], key=FAULTS.index), {k: i}]


def run(ctx):
    ctx.explore(run_case, cases(ctx.tier), chunksize=4, label='fault_sets',
                trivial=lambda oc: not oc or ':0-faults' in oc[0])
    return {'fault_sites': FAULTS, 'positions': POS}
