"""C06 Reference operators follow cell-set semantics, values included.
Engine E1: all ordered pairs (and triples on a smaller grid) of rectangles."""
import itertools, collections
from mc.core import Fail, result
from ref import rects as R
from ref.values import *

MANIFEST = {
    'engine': 'E1',
    'technique': 'exhaustive enumeration of all rectangle pairs/triples of a small grid, Ranges operators and formulas vs cell-set reference',
    'text': 'All ordered pairs of rectangles of a 4x4 grid (10^4; thorough 5x5, 50625) and all triples of a 3x3 grid (46656) are combined with '
            '& + | - simplify() and .value on the real Ranges class and through formulas (SUM/COUNT/ROWS over space, comma and colon; two reference expressions resolving to the same area inside one formula; the range operator with a multi-area operand on either side), and compared '
            'with set/multiset arithmetic on cells; whole-row/column and cross-sheet operands are enumerated against every rectangle. Values seen through whole-row operands are compared on all 16384 position-coded cells.' ' Later additions: compound formulas, the range operator over multi-area operands, R1C1 operands, unions across two sheets with equal coordinates (values), unions of three and four areas.',
    'note': 'Trusted: ref/rects.py (set arithmetic). Order of areas in a multi-area value is not judged (multiset comparison).',
}
RULE = 'every ordered pair / triple of rectangles; non-trivial = executed; distinct = case key'
ASSUMPTIONS = ['grid sizes 4x4/5x5 (pairs) and 3x3 (triples) stand for all relative positions of rectangles',
               'random multi-area operands of the statement are replaced by exhaustive pairs/triples']


def cells_of(rs):
    out = collections.Counter()
    for g in rs.ranges:
        for c in range(g['n1'], g['n2'] + 1):
            for r in range(int(g['r1']), int(g['r2']) + 1):
                out[(c, r)] += 1
    return out


def P(t, sheet=None):
    from formulas.ranges import Ranges
    return Ranges().push(('%s!' % sheet if sheet else '') + R.name(t))


def withvals(rs, n, sheet=None):
    """same areas, values of the whole position-coded grid attached."""
    from formulas.ranges import Ranges
    import numpy as np
    full = Ranges().push(('%s!' % sheet if sheet else '') + R.name((1, 1, n, n)), np.array(R.grid_of((1, 1, n, n)), object))
    return Ranges(rs.ranges, full.values)


_RX = None


def eval_on_grid(f, sheet_vals=None):
    """Evaluate formula f in a host cell outside the grid; every range the compiled
    formula asks for is supplied with the position-coded values of exactly its cells."""
    import re
    import schedula as sh
    from formulas.cell import Cell
    from xl.evalcell import classify, exc_name
    try:
        cell = Cell('Z99', f).compile()
        dsp = sh.Dispatcher()
        cell.add(dsp)
        inputs = {}
        for k in cell.inputs:
            m = re.fullmatch(r"(?:(\w+)!)?([A-Z]+)(\d+)(?::([A-Z]+)(\d+))?", str(k))
            if not m:
                return ('BAD', 'unexpected-input:%s' % k)
            c1, r1 = R.colnum(m.group(2)), int(m.group(3))
            c2, r2 = (R.colnum(m.group(4)), int(m.group(5))) if m.group(4) else (c1, r1)
            g = R.grid_of((c1, r1, c2, r2))
            off = (sheet_vals or {}).get(m.group(1))
            inputs[k] = g if not off else [[v + off for v in row] for row in g]
        sol = dsp(inputs)
        if cell.output not in sol:
            return ('BAD', 'missing-output')
        return classify(sol[cell.output].value[0, 0])
    except Exception as e:
        return ('BAD', 'exc:' + exc_name(e))


def run_pair(case):
    _, n, ia, ib = case
    rects = R.all_rects(n)
    a, b = rects[ia], rects[ib]
    sa, sb = R.cells(a), R.cells(b)
    A, B = P(a), P(b)
    fails, oc, ex = [], [], 0
    rel = 'equal' if a == b else 'contains' if sb <= sa else 'inside' if sa <= sb else 'overlap' if sa & sb else 'disjoint'

    def bad(cls, got, exp, **kw):
        fails.append(Fail(cls, got=got, exp=exp, a=R.name(a), b=R.name(b), rel=rel, **kw))

    def guard(cls, fn):
        nonlocal ex
        ex += 1
        try:
            fn()
        except Exception as e:
            bad(cls + '-exc', type(e).__name__ + ':' + str(e)[:80], 'no exception')

    def t_and():
        ci = cells_of(A & B)
        if set(ci) != sa & sb or any(v != 1 for v in ci.values()):
            bad('and', str(A & B), sorted(sa & sb))

    def t_add():
        u = A + B
        if len(u.ranges) != 1 or set(cells_of(u)) != R.cells(R.bbox(a, b)):
            bad('colon', str(u), R.name(R.bbox(a, b)))

    def t_or():
        o = A | B
        if cells_of(o) != collections.Counter(list(sa) + list(sb)) or [g['name'] for g in o.ranges] != [R.name(a), R.name(b)]:
            bad('union', str(o), [R.name(a), R.name(b)])

    def t_sub():
        d = cells_of(A - B)
        if set(d) != sa - sb or any(v != 1 for v in d.values()):
            bad('sub', str(A - B), sorted(sa - sb))

    def t_simplify():
        s = cells_of((A | B).simplify())
        if set(s) != sa | sb or any(v != 1 for v in s.values()):
            bad('simplify', str((A | B).simplify()), 'cells of %s and %s once each' % (R.name(a), R.name(b)))

    def t_values():
        import numpy as np
        v = withvals(A | B, n).value
        exp = sorted([R.val(*c) for c in sa] + [R.val(*c) for c in sb])
        if sorted(np.ravel(v).tolist()) != exp:
            bad('union-value', sorted(np.ravel(v).tolist()), exp)
        vi = withvals(A & B, n).value
        i = R.inter(a, b)
        if i:
            if np.asarray(vi).tolist() != R.grid_of(i):
                bad('and-value', np.asarray(vi).tolist(), R.grid_of(i))
        else:
            if [[str.__str__(x) for x in row] for row in np.asarray(vi, object).tolist()] != [['#NULL!']]:
                bad('and-value', repr(vi), '#NULL!')
        vb = withvals(A + B, n).value
        if np.asarray(vb).tolist() != R.grid_of(R.bbox(a, b)):
            bad('colon-value', np.asarray(vb).tolist(), R.grid_of(R.bbox(a, b)))
        d = A - B
        if d.ranges:
            vd = withvals(d, n).value
            if sorted(np.ravel(vd).tolist()) != sorted(R.val(*c) for c in sa - sb):
                bad('sub-value', sorted(np.ravel(vd).tolist()), sorted(R.val(*c) for c in sa - sb))

    def t_formulas():
        na, nb = R.name(a), R.name(b)
        i = R.inter(a, b)
        exp_i = N(sum(R.val(*c) for c in sa & sb)) if i else NULL
        bb = R.bbox(a, b)
        tests = [
            ('=SUM(%s %s)' % (na, nb), exp_i),
            ('=SUM((%s,%s))' % (na, nb), N(sum(R.val(*c) for c in sa) + sum(R.val(*c) for c in sb))),
            ('=COUNT((%s,%s))' % (na, nb), N(len(sa) + len(sb))),
            ('=COUNT(%s %s)' % (na, nb), N(len(sa & sb)) if i else None),
            # operands parenthesised: A2:A1 written bare is one (reversed) range literal, not the operator
            ('=SUM((%s):(%s))' % (na, nb), N(sum(R.val(*c) for c in R.cells(bb)))),
            ('=COUNT((%s):(%s))' % (na, nb), N(len(R.cells(bb)))),
        ]
        # two reference expressions in ONE formula that may resolve to the same area: each must see its own cells
        su = lambda cs: sum(R.val(*c) for c in cs)
        tests += [
            ('=SUM((%s,%s))*1000+SUM((%s,%s))' % (na, nb, nb, na), N(1001 * (su(sa) + su(sb)))),
            ('=SUM(%s)*1000+SUM((%s,%s))' % (nb, na, nb), N(1000 * su(sb) + su(sa) + su(sb))),
            ('=SUM((%s):(%s))*1000+COUNT((%s,%s))' % (na, nb, nb, na), N(1000 * su(R.cells(bb)) + len(sa) + len(sb))),
        ]
        if i:
            tests += [
                ('=SUM(%s %s)*1000+SUM((%s,%s))' % (na, nb, na, nb), N(1000 * su(sa & sb) + su(sa) + su(sb))),
                ('=SUM((%s,%s))*1000+SUM(%s %s)' % (nb, R.name(i), na, nb), N(1000 * (su(sb) + su(sa & sb)) + su(sa & sb))),
                ('=SUM(%s)*1000+SUM(%s %s)' % (R.name(i), nb, na), N(1001 * su(sa & sb))),
            ]
        # the same operands written in R1C1 notation (absolute, and relative to the host cell Z99) and mixed with A1
        def r1c1(t, rel=False):
            c1, r1, c2, r2 = t
            cell = (lambda c, r: 'R[%d]C[%d]' % (r - 99, c - 26)) if rel else (lambda c, r: 'R%dC%d' % (r, c))
            return cell(c1, r1) if (c1, r1) == (c2, r2) else '%s:%s' % (cell(c1, r1), cell(c2, r2))
        if n == 4 and (ia + ib) % 2 == 0 or (ia + ib) % 7 == 0:
            for xa, xb in ((r1c1(a), r1c1(b)), (r1c1(a, True), r1c1(b, True)), (na, r1c1(b, True)), (r1c1(a), nb)):
                tests += [
                    ('=SUM(%s %s)' % (xa, xb), exp_i),
                    ('=SUM((%s,%s))' % (xa, xb), N(su(sa) + su(sb))),
                    ('=SUM((%s):(%s))' % (xa, xb), N(su(R.cells(bb)))),
                ]
        for f, exp in tests:
            if exp is None:
                continue
            got = eval_on_grid(f)
            if got != exp:
                bad('formula', got, exp, formula=f.split('(')[0] + ('space' if ' ' in f else 'comma' if ',' in f else 'colon'), text=f)

    for cls, fn in (('and', t_and), ('colon', t_add), ('union', t_or), ('sub', t_sub), ('simplify', t_simplify), ('value', t_values)):
        guard(cls, fn)
    if n == 4 or (ia + ib) % 3 == 0:
        guard('formula', t_formulas)
        ex += 11
    return result(ex, ['pair:' + rel + (':fail' if fails else '')], fails)


def run_triple(case):
    _, n, ia, ib, ic = case
    rects = R.all_rects(n)
    a, b, c = rects[ia], rects[ib], rects[ic]
    sa, sb, sc = R.cells(a), R.cells(b), R.cells(c)
    A, B, C = P(a), P(b), P(c)
    fails = []

    def bad(cls, got, exp):
        fails.append(Fail(cls, got=got, exp=exp, a=R.name(a), b=R.name(b), c=R.name(c), rel='triple'))
    try:
        s = cells_of((A | B | C).simplify())
        if set(s) != sa | sb | sc or any(v != 1 for v in s.values()):
            bad('simplify', str((A | B | C).simplify()), 'union of cells once each')
    except Exception as e:
        bad('simplify-exc', type(e).__name__, 'no exception')
    try:
        d = cells_of((A | B) - C)
        exp = collections.Counter([x for x in sa if x not in sc] + [x for x in sb if x not in sc])
        # statement: "set difference ... preserve exactly the expected cells without duplicates"
        if set(d) != (sa | sb) - sc or any(v != 1 for v in d.values()):
            bad('sub', str((A | B) - C), sorted((sa | sb) - sc))
        i = cells_of((A | B) & C)
        # each cell once per covering area of the multi-area operand
        if i != collections.Counter(list(sa & sc) + list(sb & sc)):
            bad('and', str((A | B) & C), 'cells of (a n c) and of (b n c), each area counted')
        i2 = cells_of(C & (A | B))
        if i2 != collections.Counter(list(sa & sc) + list(sb & sc)):
            bad('and', str(C & (A | B)), 'cells of (c n a) and of (c n b), each area counted')
        import numpy as np
        if sa & sc or sb & sc:
            v = withvals((A | B) & C, n).value
            exp = sorted([R.val(*x) for x in sa & sc] + [R.val(*x) for x in sb & sc])
            if sorted(np.ravel(v).tolist()) != exp:
                bad('and-value', sorted(np.ravel(v).tolist()), exp)
    except Exception as e:
        bad('sub-exc', type(e).__name__, 'no exception')
    # the range operator with a multi-area operand on either side: bounding rectangle of all areas
    try:
        bb3 = R.bbox(R.bbox(a, b), c)
        for label, rs in (('(a,b):c', (A | B) + C), ('c:(a,b)', C + (A | B))):
            if cells_of(rs) != collections.Counter(R.cells(bb3)):
                bad('colon', '%s -> %s' % (label, rs), R.name(bb3))
    except Exception as e:
        bad('colon-exc', type(e).__name__, 'no exception')
    ex = 8
    if (ia * 31 + ib * 7 + ic) % 9 == 0:
        ex += 2
        for f in ('=SUM((%s,%s):(%s))' % (R.name(a), R.name(b), R.name(c)), '=SUM((%s):(%s,%s))' % (R.name(c), R.name(a), R.name(b))):
            got = eval_on_grid(f)
            want = N(sum(R.val(*x) for x in R.cells(bb3)))
            if got != want:
                bad('formula', '%s -> %s' % (f, got), want)
    if (ia * 31 + ib * 7 + ic) % 5 == 0:
        # a union of three (and four) areas written in one pair of parentheses
        ex += 3
        tot = sum(R.val(*x) for x in sa) + sum(R.val(*x) for x in sb) + sum(R.val(*x) for x in sc)
        for f, want in (('=SUM((%s,%s,%s))' % (R.name(a), R.name(b), R.name(c)), N(tot)),
                        ('=COUNT((%s,%s,%s))' % (R.name(c), R.name(a), R.name(b)), N(len(sa) + len(sb) + len(sc))),
                        ('=SUM((%s,%s,%s,%s))' % (R.name(a), R.name(b), R.name(c), R.name(a)), N(tot + sum(R.val(*x) for x in sa)))):
            got = eval_on_grid(f)
            if got != want:
                bad('formula', '%s -> %s' % (f, got), want)
    if (ia * 31 + ib * 7 + ic) % 9 == 0 and (sa & sc or sb & sc):
        ex += 1
        f = '=SUM((%s,%s) %s)' % (R.name(a), R.name(b), R.name(c))
        got = eval_on_grid(f)
        want = N(sum(R.val(*x) for x in sa & sc) + sum(R.val(*x) for x in sb & sc))
        if got != want:
            bad('formula', got, want)
    return result(ex, ['triple' + (':fail' if fails else '')], fails)


WHOLE = ['A:A', 'B:C', 'A:D', '1:1', '2:3', '1:4', 'C:C', '4:4']


def run_whole(case):
    _, n, w, ib = case
    from formulas.ranges import Ranges
    MAXR, MAXC = 1048576, 16384
    b = R.all_rects(n)[ib]
    W = Ranges().push(w)
    g = W.ranges[0]
    wt = (g['n1'] or 1, int(g['r1']) or 1, g['n2'], int(g['r2']))
    B = P(b)
    fails = []

    def bad(cls, got, exp):
        fails.append(Fail(cls, got=got, exp=exp, a=w, b=R.name(b), rel='whole'))

    def rect_cells_count(rs):
        # whole rows/columns carry a phantom row/column 0 in the library's representation: count real cells only
        return sum(max(0, x['n2'] - max(x['n1'], 1) + 1) * max(0, int(x['r2']) - max(int(x['r1']), 1) + 1) for x in rs.ranges)
    try:
        i = R.inter(wt, b)
        got = W & B
        gi = cells_of(got) if got.ranges else {}
        if set(gi) != (R.cells(i) if i else set()):
            bad('and', str(got), i)
        got = B & W
        gi = cells_of(got) if got.ranges else {}
        if set(gi) != (R.cells(i) if i else set()):
            bad('and', str(got), i)
        d = B - W
        if {c for c in cells_of(d) if c[0] >= 1 and c[1] >= 1} != R.cells(b) - (R.cells(i) if i else set()):
            bad('sub', str(d), 'b minus whole')
        d2 = W - B
        area_w = (wt[2] - wt[0] + 1) * (wt[3] - wt[1] + 1)
        if rect_cells_count(d2) != area_w - (len(R.cells(i)) if i else 0):
            bad('sub', str(d2), 'whole minus b: %d cells' % (area_w - (len(R.cells(i)) if i else 0)))
        u = W + B
        bb = R.bbox(wt, b)
        gu = u.ranges[0]
        if (gu['n1'] or 1, int(gu['r1']) or 1, gu['n2'], int(gu['r2'])) != bb or len(u.ranges) != 1:
            bad('colon', str(u), bb)
        # values seen through a whole-row operand (16384 position-coded values; whole columns are too large to value)
        if w[0].isdigit():
            import numpy as np
            vals = np.array([[R.val(c, r) for c in range(1, MAXC + 1)] for r in range(wt[1], wt[3] + 1)], object)
            WV = Ranges().push(w, vals)
            BV = Ranges().push(R.name(b), np.array(R.grid_of(b), object))
            if i:
                for label, got in (('and-value', (WV & BV).value), ('and-value', (BV & WV).value)):
                    if np.asarray(got).tolist() != R.grid_of(i):
                        bad(label, np.asarray(got).tolist(), R.grid_of(i))
            u = WV + BV
            gv = np.asarray(u.value)
            for (c, r) in sorted(R.cells(b)) + [(MAXC, wt[1]), (1, wt[3])]:
                if bb[1] <= r <= bb[3] and gv[r - bb[1], c - 1] != R.val(c, r):
                    bad('colon-value', '%s at col %d row %d' % (gv[r - bb[1], c - 1], c, r), R.val(c, r))
                    break
    except Exception as e:
        bad('whole-exc', type(e).__name__ + ':' + str(e)[:60], 'no exception')
    return result(8, ['whole' + (':fail' if fails else '')], fails)


def run_sheets(case):
    _, n, ia, ib = case
    from formulas.errors import InvalidRangeError
    from xl.evalcell import eval_formula
    rects = R.all_rects(n)
    a, b = rects[ia], rects[ib]
    A, B = P(a, 'S1'), P(b, 'S2')
    fails = []

    def bad(cls, got, exp):
        fails.append(Fail(cls, got=got, exp=exp, a='S1!' + R.name(a), b='S2!' + R.name(b), rel='sheets'))
    try:
        if (A & B).ranges:
            bad('and', str(A & B), 'empty')
        if [g['name'] for g in (A | B).ranges] != ['S1!' + R.name(a), 'S2!' + R.name(b)]:
            bad('union', str(A | B), 'both areas')
        if cells_of(A - B) != collections.Counter(R.cells(a)):
            bad('sub', str(A - B), 'a unchanged')
        try:
            A + B
            bad('colon', str(A + B), 'InvalidRangeError')
        except InvalidRangeError:
            pass
        s = (A | B).simplify()
        if sorted(g['name'] for g in s.ranges) != sorted(['S1!' + R.name(a), 'S2!' + R.name(b)]) and \
                (sum(len(R.cells((g['n1'], int(g['r1']), g['n2'], int(g['r2'])))) for g in s.ranges) != len(R.cells(a)) + len(R.cells(b))
                 or {g['sheet_id'] for g in s.ranges} != {'S1', 'S2'}):
            bad('simplify', str(s), 'both areas on their own sheets')
    except Exception as e:
        bad('sheets-exc', type(e).__name__ + ':' + str(e)[:60], 'no exception')
    # values: areas with the same coordinates on two sheets hold different values (sheet S2: +1000)
    try:
        import numpy as np
        from formulas.ranges import Ranges
        va = Ranges().push('S1!' + R.name(a), np.array(R.grid_of(a), object))
        vb = Ranges().push('S2!' + R.name(b), np.array([[v + 1000 for v in row] for row in R.grid_of(b)], object))
        want = sorted([R.val(*c) for c in R.cells(a)] + [R.val(*c) + 1000 for c in R.cells(b)])
        for label, u in (('a|b', va | vb), ('b|a', vb | va)):
            got = sorted(np.ravel(np.asarray(u.value, object)).tolist())
            if got != want:
                bad('union-value', '%s -> %s' % (label, got[:8]), want[:8])
    except Exception as e:
        bad('sheets-exc', type(e).__name__ + ':' + str(e)[:60], 'no exception')
    ex = 7
    if ia == ib or (ia * 7 + ib) % 5 == 0:
        ex += 2
        na, nb = 'S1!' + R.name(a), 'S2!' + R.name(b)
        want = N(sum(R.val(*c) for c in R.cells(a)) + sum(R.val(*c) + 1000 for c in R.cells(b)))
        for f in ('=SUM((%s,%s))' % (na, nb), '=SUM((%s,%s))' % (nb, na)):
            got = eval_on_grid(f, {'S2': 1000})
            if got != want:
                bad('formula', '%s -> %s' % (f, got), want)
    if ia == ib or (ia * 7 + ib) % 11 == 0:
        ex += 2
        na, nb = 'S1!' + R.name(a), 'S2!' + R.name(b)
        got = eval_on_grid('=SUM(%s %s)' % (na, nb))
        if got != NULL:
            bad('formula', got, NULL)
        got = eval_on_grid('=SUM((%s):(%s))' % (na, nb))
        if got[0] != 'e':
            bad('formula', got, 'an error value')
    return result(ex, ['sheets' + (':fail' if fails else '')], fails)


def run_case(case):
    return {'pair': run_pair, 'triple': run_triple, 'whole': run_whole, 'sheets': run_sheets}[case[0]](case)


def run(ctx):
    n = 4 if ctx.tier == 'quick' else 5
    m = len(R.all_rects(n))
    ctx.explore(run_case, (['pair', n, i, j] for i in range(m) for j in range(m)), chunksize=100, label='pairs_%dx%d' % (n, n))
    t = len(R.all_rects(3))
    ctx.explore(run_case, (['triple', 3, i, j, k] for i in range(t) for j in range(t) for k in range(t)), chunksize=400, label='triples_3x3')
    m4 = len(R.all_rects(4))
    ctx.explore(run_case, (['whole', 4, w, j] for w in WHOLE for j in range(m4)), chunksize=50, label='whole_row_col')
    s = len(R.all_rects(3))
    ctx.explore(run_case, (['sheets', 3, i, j] for i in range(s) for j in range(s)), chunksize=50, label='two_sheets')
    return {'grid': n}
