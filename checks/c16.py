"""C16 Writing a solution reproduces it cell for cell.
Engine E1: (sheet naming x origin x override x target) on a workbook holding every
value kind and every range shape; every solved cell is checked in the written books."""
import itertools, json, os
from mc.core import Fail, result
from xl import models as M
from ref import wbeval as W

MANIFEST = {
    'engine': 'E1',
    'technique': 'exhaustive enumeration of (sheet naming, model origin, override, write target) with a per-cell oracle over every solved cell of the written workbooks',
    'text': 'A two-book workbook holding every value kind (integer, fraction, text, text beginning with "=", empty text, logicals, three error values, blank reference) and '
            'array-formula ranges of shape 1x1, 1x2, 2x1 and 2x2 is built with each of 7 sheet namings (plain, with a space, lower case, needing quotes, with an apostrophe, digit-first, with a letter whose upper case is two letters), '
            'loaded fully or from chosen ranges (sentinel cells outside the model), calculated with and without overridden inputs, and written into fresh books, into the loaded '
            'books and to disk (read back with openpyxl). Every (book, sheet, coordinate) covered by the solution must hold the converted solved value at its own position, '
            'no extra sheet may appear, sentinels must be untouched and compare() with the written files must report no difference; on the disk target a second, different solution is written over the same files and compared again in the same process. Half of the namings are repeated with the second book\'s sheet carrying the same name as the first book\'s.' ' Later additions: merged cells inside an overridden block, compare() without a solution argument and with each file alone, a pre-written range-override solution, whole-row nodes two rows high (thorough: whole-column nodes two columns wide) on every target; a linked workbook living in a sub-folder of the main workbook (one folder quick, three thorough; loaded explicitly or on demand; with and without an override), written to disk, read back cell by cell and compared.',
    'note': 'Oracle is the solution itself (the property is about reproduction), so no reference evaluator is trusted here; conversion rules from the statement.',
}
RULE = 'case = (sheet name, origin, override, target); every solved cell is one obligation; non-trivial = written and inspected; distinct = case key'
ASSUMPTIONS = ['one workbook layout; empty text and blank may both be stored as an empty cell ("" or None)']
B, C = M.B, M.C
SHEETS = ['S', 'My Data', 'lower', 'x-y', "It's", '1st', 'Maße']      # 'Maße'.upper() == 'MASSE': case folding that changes length


def build_spec(sn, same=False):
    U = sn if same else 'U'      # the second book's sheet may carry the same name as the first book's
    K, cell, rng, op, fn, num, const = M.K, M.cell, M.rng, M.op, M.fn, M.num, M.const
    cells = {
        K(sn, 'A1'): const(('n', 3.0)), K(sn, 'A2'): const(('n', 0.5)), K(sn, 'A3'): const(('t', 'txt')), K(sn, 'A5'): const(('b', True)),
        K(sn, 'A6'): const(('b', False)), K(sn, 'A7'): const(('t', 'it''s "q"')),
        K(sn, 'B1'): op('/', num(1), num(0)), K(sn, 'B2'): ['err', '#N/A'], K(sn, 'B3'): cell(sn, 'A9'), K(sn, 'B4'): ['txt', ''],
        K(sn, 'B5'): ['txt', '=x'], K(sn, 'B6'): op('&', cell(sn, 'A3'), cell(sn, 'A1')), K(sn, 'B7'): op('=', cell(sn, 'A1'), num(3)),
        K(sn, 'B8'): op('+', ['txt', 'abc'], num(1)),
        # logical results that come back as numpy booleans
        K(sn, 'B9'): fn('ISNUMBER', cell(sn, 'A1')), K(sn, 'B10'): fn('ISERROR', cell(sn, 'B1')), K(sn, 'B11'): fn('ISBLANK', cell(sn, 'A9')),
        K(sn, 'B12'): fn('NOT', fn('ISTEXT', cell(sn, 'A3'))), K(sn, 'B13'): fn('AND', cell(sn, 'A5'), fn('ISNUMBER', cell(sn, 'A2'))),
        K('T', 'A1'): op('+', cell(sn, 'A1'), num(1)),
        # a range with several unpopulated cells (they exist only through the range node)
        K(sn, 'F19'): fn('SUM', rng(sn, 'D19:E21')),            # an otherwise unpopulated block (given as an input in the 'merged' cases)
        K(sn, 'A20'): const(('n', 1.0)), K(sn, 'A22'): const(('n', 2.0)), K(sn, 'B20'): fn('SUM', rng(sn, 'A20:A25')),
        K(U, 'A1', C): const(('n', 10.0)), K(U, 'B1', C): op('*', cell(sn, 'A1'), cell(U, 'A1', C)), K(U, 'A3', C): const(('t', 'other book')),
    }
    arrays = {
        K(sn, 'G1:G1'): op('*', cell(sn, 'A1'), num(2)),
        K(sn, 'G3:H3'): op('*', cell(sn, 'A1'), num(3)),
        K(sn, 'G5:G6'): op('*', rng(sn, 'A1:A2'), num(2)),
        K(sn, 'G8:H9'): op('+', rng(sn, 'A1:A2'), num(0)),
        K(sn, 'J1:K2'): op('&', rng(sn, 'A5:A6'), ['txt', '']),
        K(sn, 'M1:M3'): fn('ISNUMBER', rng(sn, 'A1:A3')),
    }
    return {'cells': cells, 'arrays': arrays, 'names': {}, 'sheets': [[B, sn], [B, 'T'], [C, U]]}


def cases(tier):
    for sn in SHEETS:
        for origin in ('loads', 'ranges'):
            for over in (False, True):
                for target in ('fresh', 'loaded', 'disk'):
                    yield ['write', sn, origin, over, target]
                    if sn in ('S', 'My Data', "It's"):
                        yield ['write', sn, origin, over, target, 'same-sheet-name']
                    if sn in ('S', 'x-y') and target != 'disk' and origin == 'loads':
                        yield ['write', sn, origin, over, target, 'prewrite']
                    if sn in ('S', 'lower') and target == 'loaded' and origin == 'loads':
                        yield ['write', sn, origin, over, target, 'merged']


def convert(v):
    """solution element -> what the written cell must hold (set of acceptable python values)."""
    import numpy as np
    import schedula as sh
    from formulas.tokens.operand import XlError
    if v is sh.EMPTY:
        return [None, '']
    if isinstance(v, XlError):
        return [str.__str__(v)]
    if isinstance(v, np.generic):
        v = v.item()
    if isinstance(v, str) and v == '':
        return [None, '']
    return [v]


def run_case(case):
    if case[0] == 'wide':
        return run_wide(case)
    if case[0] == 'subdir':
        return run_subdir(case)
    _, sn, origin, over, target = case[:5]
    same = len(case) > 5 and case[5] == 'same-sheet-name'
    merged = len(case) > 5 and case[5] == 'merged'          # the loaded sheet has merged cells inside an overridden block
    prewrite = len(case) > 5 and case[5] == 'prewrite'      # a solution with the sparse range overridden is written first, into the same books
    import formulas, openpyxl
    import numpy as np
    import schedula as sh
    from formulas.ranges import Ranges
    from xl import wbspec as X
    from xl.evalcell import exc_name
    spec = build_spec(sn, same)
    U = sn if same else 'U'
    desc = dict(sheet=sn, origin=origin, over=over, target=target, same=same, prewrite=prewrite, merged=merged)
    fails, ex, oc = [], 0, set()
    cwd = os.getcwd()
    with X.Scratch() as d:
        try:
            paths = X.write_files(spec, d)
            # sentinels: cells no formula refers to
            for p, (sheet, coord) in ((paths[B], (sn, 'Z50')), (paths[C], (U, 'Z50'))):
                wb = openpyxl.load_workbook(p)
                wb[sheet][coord] = 'sentinel'
                wb.save(p)
            if merged:
                wbm = openpyxl.load_workbook(paths[B])
                wbm[sn].merge_cells('D20:E20')
                wbm.save(paths[B])
            os.chdir(d)
            if origin == 'loads':
                m = formulas.ExcelModel().loads(B, C).finish()
            else:
                outs = [X.lib_id(B, sn, c) for c in ('B6', 'B8', 'G8:H9', 'J1:K2', 'B3', 'B9', 'B13', 'M1:M3')] + [X.lib_id(B, 'T', 'A1'), X.lib_id(C, U, 'B1')]
                m = formulas.ExcelModel().from_ranges(*outs).finish()
            inputs = {X.lib_id(B, sn, 'A1'): 99, X.lib_id(B, sn, 'A3'): '=y'} if over else {}
            if merged:
                inputs[X.lib_id(B, sn, 'D19:E21')] = [[1, 2], [3, 4], [5, 6]]
            sol = m.calculate(inputs)
            ex += 1
            sol_r = m.calculate(dict(inputs, **{X.lib_id(B, sn, 'A20:A25'): [[11], [12], [13], [14], [15], [16]]})) if prewrite else None
            if target == 'fresh':
                books = m.write(solution=sol_r) if prewrite else None       # the returned books are written again below
                books = m.write(books=books, solution=sol) if prewrite else m.write(solution=sol)
            elif target == 'loaded':
                if prewrite:
                    m.write(books=m.books, solution=sol_r)
                books = m.write(books=m.books, solution=sol)
            else:
                out = os.path.join(d, 'out')
                m.write(solution=sol, dirpath=out)
                books = {}
                for root, _, files in os.walk(out):
                    for f in files:
                        books[os.path.relpath(os.path.join(root, f), out).upper()] = {formulas.BOOK: openpyxl.load_workbook(os.path.join(root, f))}
                files = [os.path.join(out, f) for f in sorted(os.listdir(out))]
                diff = m.compare(*files, solution=sol)
                if diff:
                    fails.append(Fail('compare-reports-difference', got=str(diff[:2])[:200], exp='[]', **desc))
                # compare() without a solution argument calculates the model itself: whatever was calculated last must not show
                out2 = os.path.join(d, 'out2')
                m.write(solution=m.calculate(), dirpath=out2)
                files2 = [os.path.join(out2, f) for f in sorted(os.listdir(out2))]
                m.calculate({X.lib_id(B, sn, 'A1'): 1234})
                m.calculate(outputs=[X.lib_id(B, 'T', 'A1')])
                diff = m.compare(*files2)
                if diff:
                    fails.append(Fail('compare-reports-difference', got=str(diff[:2])[:200], exp='[]', no_solution_argument=True, **desc))
                for f1 in files:                # each written file on its own
                    diff = m.compare(f1, solution=sol)
                    if diff:
                        fails.append(Fail('compare-reports-difference', got=str(diff[:2])[:200], exp='[]', subset=os.path.basename(f1), **desc))
                # a different solution written over the same files, compared again in the same process
                sol_b = m.calculate({X.lib_id(B, sn, 'A1'): 7, X.lib_id(B, sn, 'A5'): False})
                m.write(solution=sol_b, dirpath=out)
                diff = m.compare(*files, solution=sol_b)
                if diff:
                    fails.append(Fail('compare-reports-difference', got=str(diff[:2])[:200], exp='[]', second_write=True, **desc))
                wb2 = openpyxl.load_workbook(files[0])
                ws2 = [w for w in wb2.worksheets if w.title.upper() == 'T']
                if not ws2 or ws2[0]['A1'].value != 8:
                    fails.append(Fail('cell-differs', got=repr(ws2[0]['A1'].value if ws2 else None), exp='8', node='T!A1', coord='A1', kind='float', shape='1x1', second_write=True, **desc))
                m.write(solution=sol, dirpath=out)          # back to the solution that is inspected below
                books = {}
                for root, _, fs in os.walk(out):
                    for f in fs:
                        books[os.path.relpath(os.path.join(root, f), out).upper()] = {formulas.BOOK: openpyxl.load_workbook(os.path.join(root, f))}
                diff = m.compare(*files, solution=sol)
                if diff:
                    fails.append(Fail('compare-reports-difference', got=str(diff[:2])[:200], exp='[]', third_write=True, **desc))
            ex += 1
        except Exception as e:
            os.chdir(cwd)
            return result(ex + 1, ['escape'], [Fail('escape', got='%s:%s' % (exc_name(e), str(e)[:150]), exp='write succeeds', **desc)])
        finally:
            os.chdir(cwd)
        wbs = {k.upper(): v[formulas.BOOK] for k, v in books.items()}
        expected_sheets = {B.upper(): {sn.upper(), 'T'}, C.upper(): {U.upper()}}
        for bk, wb in wbs.items():
            titles = [t.upper() for t in wb.sheetnames]
            extra = set(titles) - expected_sheets.get(bk, set())
            if extra or len(titles) != len(set(titles)):
                fails.append(Fail('unexpected-sheet', got=str(wb.sheetnames), exp=str(sorted(expected_sheets.get(bk, set()))), book=bk, **desc))
        if set(wbs) - set(expected_sheets):
            fails.append(Fail('unexpected-book', got=str(sorted(wbs)), exp=str(sorted(expected_sheets)), **desc))
        # every solved cell at its own coordinates
        n_cells = 0
        for k, r in sol.items():
            if isinstance(k, sh.Token) or not isinstance(r, Ranges):
                continue
            g = r.ranges[0]
            sid = g.get('sheet_id', '')
            if not sid.startswith("'["):
                continue
            bk, sheet = sid[2:-1].split(']', 1)
            sheet = sheet.replace("''", "'")
            wb = wbs.get(bk.upper())
            if wb is None:
                fails.append(Fail('book-not-written', got=sorted(wbs), exp=bk, node=k, **desc))
                continue
            ws = [w for w in wb.worksheets if w.title.upper() == sheet.upper()]
            if not ws:
                fails.append(Fail('sheet-not-written', got=wb.sheetnames, exp=sheet, node=k, **desc))
                continue
            val = np.asarray(r.value, object)
            if val.ndim != 2 or int(g['r2']) - int(g['r1']) > 50:
                continue
            for i in range(val.shape[0]):
                for j in range(val.shape[1]):
                    coord = W.coord(g['n1'] + j, int(g['r1']) + i)
                    n_cells += 1
                    want = convert(val[i, j])
                    c = ws[0][coord]
                    if type(c).__name__ == 'MergedCell':
                        continue            # the read-only part of a merged cell cannot hold a value
                    got = c.value
                    ok = any((got == w and type(got) == type(w)) or (isinstance(w, float) and isinstance(got, (int, float)) and not isinstance(got, bool) and got == w)
                             or (isinstance(w, int) and not isinstance(w, bool) and isinstance(got, (int, float)) and not isinstance(got, bool) and got == w) for w in want) \
                        or (None in want and got in (None, ''))
                    kind = 'blank' if None in want else type(want[0]).__name__
                    oc.add('cell:' + kind)
                    if not ok or c.data_type == 'f':
                        fails.append(Fail('cell-differs', got='%r (%s)' % (got, c.data_type), exp=repr(want), node=k, coord=coord, kind=kind, shape='%dx%d' % val.shape, **desc))
        ex += n_cells
        # sentinels untouched
        if target in ('loaded',):
            for bk, (sheet, coord) in ((B, (sn, 'Z50')), (C, (U, 'Z50'))):
                wb = wbs.get(bk.upper())
                if wb is not None:
                    ws = [w for w in wb.worksheets if w.title.upper() == sheet.upper()]
                    if not ws or ws[0][coord].value != 'sentinel':
                        fails.append(Fail('sentinel-touched', got=ws[0][coord].value if ws else 'no sheet', exp='sentinel', book=bk, **desc))
    return result(ex, sorted(oc) + ['write:%s:%s' % (target, 'ok' if not fails else 'fail')], fails[:8])


def wide_cases(tier):
    """whole-row / whole-column nodes spanning more than one row / column: the node covers far more cells than are populated."""
    for kind in (('rows', 'row1') if tier == 'quick' else ('rows', 'row1', 'cols', 'col1')):
        for target in ('fresh', 'loaded', 'disk'):
            if kind.startswith('col') and target != 'disk':
                continue        # 2 x 1048576 written cells per book: one target only
            yield ['wide', kind, target]


WIDE = {'rows': ('=SUM(5:6)', 2, 16384), 'row1': ('=SUM(5:5)', 1, 16384), 'cols': ('=SUM(A:B)', 1048576, 2), 'col1': ('=SUM(B:B)', 1048576, 1)}


def run_wide(case):
    _, kind, target = case
    import formulas, openpyxl
    import numpy as np
    import schedula as sh
    from formulas.ranges import Ranges
    from xl import wbspec as X
    from xl.evalcell import exc_name
    desc = dict(kind=kind, target=target)
    fails, ex = [], 0
    pop = {'A1': 1, 'B1': 10, 'A2': 2, 'B2': 20, 'A3': 3, 'B3': 30, 'A5': 100, 'B5': 200, 'C5': 300, 'A6': 400, 'B6': 500, 'C6': 600, 'E9': 'keep'}
    total = {'rows': 2100, 'row1': 600, 'cols': 1266, 'col1': 760}[kind]
    cwd = os.getcwd()
    with X.Scratch() as d:
        try:
            wb = openpyxl.Workbook()
            ws = wb.active
            ws.title = 'S'
            for k, v in pop.items():
                ws[k] = v
            ws['H20'] = WIDE[kind][0]
            wb.save(os.path.join(d, 'w.xlsx'))
            os.chdir(d)
            m = formulas.ExcelModel().loads('w.xlsx').finish()
            sol = m.calculate()
            if target == 'fresh':
                books = m.write(solution=sol)
            elif target == 'loaded':
                books = m.write(books=m.books, solution=sol)
            else:
                out = os.path.join(d, 'out')
                m.write(solution=sol, dirpath=out)
                diff = m.compare(os.path.join(out, 'W.XLSX'), solution=sol)
                if diff:
                    fails.append(Fail('compare-reports-difference', got=str(diff[:2])[:200], exp='[]', **desc))
                books = {'W.XLSX': {formulas.BOOK: openpyxl.load_workbook(os.path.join(out, 'W.XLSX'))}}
            ex += 1
        except Exception as e:
            os.chdir(cwd)
            return result(ex + 1, ['escape'], [Fail('escape', got='%s:%s' % (exc_name(e), str(e)[:150]), exp='write succeeds', **desc)])
        finally:
            os.chdir(cwd)
        wsw = [v[formulas.BOOK] for k, v in books.items() if k.upper() == 'W.XLSX'][0]['S']
        want = dict(pop, H20=total)
        if target != 'loaded':
            want.pop('E9')          # not part of the model
        for k, v in sorted(want.items()):
            ex += 1
            got = wsw[k].value
            if got != v or wsw[k].data_type == 'f':
                fails.append(Fail('cell-differs', got=repr(got), exp=repr(v), coord=k, wide=True, **desc))
        # every cell of the wide node inside the window A1:Z60 (the rest of the node is blank)
        for k, r in sol.items():
            if isinstance(k, sh.Token) or not isinstance(r, Ranges):
                continue
            g = r.ranges[0]
            val = np.asarray(r.value, object)
            if val.shape != WIDE[kind][1:]:
                continue
            for i in range(min(val.shape[0], 60)):
                for j in range(min(val.shape[1], 26)):
                    coord = W.coord(max(g['n1'], 1) + j, max(int(g['r1']), 1) + i)     # whole rows start at column 0, whole columns at row 0
                    ex += 1
                    wantv, got = convert(val[i, j]), wsw[coord].value
                    if not (got in wantv or (None in wantv and got in (None, ''))):
                        fails.append(Fail('cell-differs', got=repr(got), exp=repr(wantv), coord=coord, node=k, wide=True, **desc))
    return result(ex, ['wide:%s:%s:%s' % (kind, target, 'ok' if not fails else 'fail')], fails[:8])


def subdir_cases(tier):
    """a linked workbook that lives in a sub-folder of the main workbook's folder: written to disk and compared (wave-7 hole)."""
    for folder in (('data',) if tier == 'quick' else ('data', 'a/b', 'Data Sets')):
        for origin in ('main-only', 'both'):
            for over in (False, True):
                yield ['subdir', folder, origin, over]


def run_subdir(case):
    _, folder, origin, over = case
    import formulas, openpyxl
    from xl import wbspec as X
    from xl.evalcell import exc_name
    desc = dict(folder=folder, origin=origin, over=over, subdir=True)
    fails, ex = [], 0
    a1 = 7 if over else 1
    want = {'MAIN.XLSX': {'A1': a1, 'B1': a1 + 30, 'C1': (a1 + 30) * 2, 'E1': 30, 'F1': 'kx'},
            folder.upper() + '/OTHER.XLSX': {'A1': 10, 'A2': 20, 'A3': 30, 'B1': 'k'}}
    cwd = os.getcwd()
    with X.Scratch() as d:
        try:
            src, out = os.path.join(d, 'src'), os.path.join(d, 'out')
            os.makedirs(os.path.join(src, *folder.split('/')))
            wb = openpyxl.Workbook()
            ws = wb.active
            ws.title = 'T'
            ws['A1'], ws['A2'], ws['A3'], ws['B1'] = 10, 20, '=A1+A2', 'k'
            other = os.path.join(src, *(folder.split('/') + ['other.xlsx']))
            wb.save(other)
            wb = openpyxl.Workbook()
            ws = wb.active
            ws.title = 'S'
            ws['A1'] = 1
            ws['B1'] = "=A1+'%s/[other.xlsx]T'!A3" % folder
            ws['C1'] = '=B1*2'
            ws['E1'] = "=SUM('%s/[other.xlsx]T'!A1:A2)" % folder
            ws['F1'] = "='%s/[other.xlsx]T'!B1&\"x\"" % folder
            wb.save(os.path.join(src, 'main.xlsx'))
            os.chdir(src)
            m = formulas.ExcelModel()
            m = (m.loads('main.xlsx') if origin == 'main-only' else m.loads('main.xlsx', folder + '/other.xlsx')).finish()
            sol = m.calculate({X.lib_id('main.xlsx', 'S', 'A1'): 7} if over else {})
            ex += 1
            names = sorted(m.write(solution=sol))
            if [n.upper() for n in names] != sorted(want):
                return result(ex, ['subdir:books'], [Fail('books-written', got=str(names), exp=str(sorted(want)), **desc)])
            for n in names:
                os.makedirs(os.path.dirname(os.path.join(out, *n.split('/'))), exist_ok=True)
            m.write(solution=sol, dirpath=out)
            files = [os.path.join(out, *n.split('/')) for n in sorted(names, key=lambda n: n.count('/'))]      # the main workbook first
            for n, f in zip(sorted(names, key=lambda n: n.count('/')), files):
                wsw = openpyxl.load_workbook(f)[{'MAIN.XLSX': 'S'}.get(n.upper(), 'T')]
                for k, v in sorted(want[n.upper()].items()):
                    ex += 1
                    got = wsw[k].value
                    if got != v or wsw[k].data_type == 'f':
                        fails.append(Fail('cell-differs', got=repr(got), exp=repr(v), coord=k, book=n, **desc))
            ex += 1
            diff = m.compare(*files, solution=sol)
            if diff:
                fails.append(Fail('compare-reports-difference', got=str(diff[:2])[:200], exp='[]', **desc))
        except Exception as e:
            os.chdir(cwd)
            return result(ex + 1, ['escape'], [Fail('escape', got='%s:%s' % (exc_name(e), str(e)[:150]), exp='write and compare succeed', **desc)])
        finally:
            os.chdir(cwd)
    return result(ex, ['subdir:%s:%s:%s:%s' % (folder, origin, over, 'ok' if not fails else 'fail')], fails[:8])


def run(ctx):
    ctx.explore(run_case, cases(ctx.tier), chunksize=1, label='write_cases')
    ctx.explore(run_case, wide_cases(ctx.tier), chunksize=1, label='whole_row_and_column_nodes', nproc=4)
    ctx.explore(run_case, subdir_cases(ctx.tier), chunksize=1, label='linked_workbook_in_a_sub_folder')
    return {}
