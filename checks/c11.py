"""C11 Worksheet functions are total and never lose an error value.
Engine E1: every registered function x every admissible argument count x argument
tuples over a fixed value pool (full product for low arity, default call with a
bounded number of deviating positions above)."""
import sys, re, itertools, inspect, signal, resource
from mc.core import Fail, result
from ref import arity as A
from ref.values import literal

MANIFEST = {
    'engine': 'E1',
    'technique': 'bounded exhaustive enumeration of function x argument count x argument-kind tuples on the real code; '
                 'totality, well-formedness and an error-preservation table as oracle',
    'text': 'Every key of the function table (completeness asserted against a hand-written table of Excel argument counts, itself audited '
            'against the 5 625 corpus formulas Excel accepted) is called through the single-formula path with every admissible argument '
            'count (variadic functions: min..min+3) and argument tuples over a fixed pool of 24 values of every kind (7 numbers, 3 texts, '
            'TRUE/FALSE, a blank reference, the 7 errors, two array literals, a range with a blank, an empty-text cell): the full product '
            'for <= 2 arguments (thorough <= 3); above that a benign default call with every single position, and every pair of positions '
            '(thorough: every triple), replaced by pool values - pairs at >= 4 arguments (thorough: triples) draw from a 12-value '
            'sub-pool of kind representatives.  Thorough repeats the quick bound with every argument passed through cell references. '
            'Exhaustive within these bounds, nothing sampled. Fifteen variadic functions are also called with 31, 32, 33 and 40 arguments (the library has a separate path from 32 on) with an error at the first, second, middle and last positions, typed and referenced. The paired-series functions (CORREL, SLOPE, FORECAST, FORECAST.LINEAR) get an error at every position of either series opposite every kind of element (number, blank, text, logical, empty text, error, numeric text) in the other, as columns and rows.' ' Later additions: paired series, numeric text 1E+999 and CJK text in the pool, MDETERM / MINVERSE / TRANSPOSE / GCD / LCM at huge magnitudes, reached error keys of SWITCH and reached error conditions of IFS in the oracle.',
    'note': 'Trusted: ref/arity.py (Excel argument counts, default calls, table of positions whose error is certainly consumed). '
            'Only escapes, ill-formed values and lost errors are judged, not the values themselves; values outside the pool, more than '
            'k deviating positions at high arity and more than min+3 arguments of variadic functions are not decided.',
}
RULE = ('every (function key, argument count, spelling mode, deviating positions -> pool value); non-trivial = executed on the '
        'implementation; distinct = distinct case key')
ASSUMPTIONS = [
    'argument counts, default calls and the consumed-position table are my reading of Excel\'s function reference (ref/arity.py)',
    '(c) is asserted for a scalar error in every position except: IFERROR IFNA IS* (inspect/handle errors); COUNT COUNTA COUNTBLANK '
    'COUNTIF SUMIF AVERAGEIF (errors are data/criteria); IF (condition + the selected branch) IFS SWITCH (first position only); '
    'INDEX (row/column numbers) MATCH (value, match type) LOOKUP VLOOKUP HLOOKUP (value, index, mode) FILTER (include); ROW COLUMN; '
    'DUMMYFUNCTION.  T, ADDRESS sheet text and NPV values are asserted because Excel\'s cached values in the corpus show the error',
    '(c) for an error inside an array argument is asserted only for aggregations (SUM family, statistics, AND/OR/XOR, GCD/LCM, CONCAT, '
    'TEXTJOIN texts, LARGE/SMALL/PERCENTILE/QUARTILE data, matrix functions) and, as "the result grid contains an error", for '
    'scalar-parameter functions when every other argument is a scalar; not for CORREL SLOPE FORECAST IRR NPV XIRR XNPV TRANSPOSE SINGLE MUNIT T',
    'volatile functions NOW TODAY RAND RANDBETWEEN get (a) and (b) only',
    'positions where Excel accepts only a reference (ROW COLUMN COUNTBLANK COUNTIF/SUMIF/AVERAGEIF ranges) always receive ranges',
    'ARRAY/ARRAYROW are the library\'s array-literal constructors, exercised as ={...} literals with constant elements',
    'two array arguments with shapes that cannot be stretched onto each other (e.g. 2x2 with 1x4): the library raises BroadcastError by '
    'design (its own test_cell.test_invalid pins it), so an escape is accepted for exactly these tuples; a returned value is still judged',
    'a call that does not return within 2 s of CPU time (ordinary calls: 3 ms) is reported as class "hangs"',
    'argument counts that the implementation\'s innermost signature cannot bind (a guaranteed TypeError -> #VALUE!) are skipped and '
    'listed in coverage.unbindable_counts',
]

COLS = 'BCDEFGH'


def array_literal(v):
    rows = [[literal(x) for x in row] for row in v[1]]
    if any(x is None for r in rows for x in r):
        return None
    return '{%s}' % ';'.join(','.join(r) for r in rows)


def spell(v, how, pos, inputs):
    """text of one argument; 'ref' spelling puts the value into the block of cells reserved for the position."""
    if how == 'lit':
        s = array_literal(v) if A.is_array(v) else literal(v)
        if s is not None:
            return s
    r0 = 11 + 10 * pos
    if A.is_array(v):
        ref = 'B%d:%s%d' % (r0, COLS[len(v[1][0]) - 1], r0 + len(v[1]) - 1)
    else:
        ref = 'B%d' % r0
    inputs[ref] = v
    return ref


def build(case):
    name, nargs, mode, devs = case
    b = A.base_name(name)
    args = A.defaults(name, nargs)
    assert len(args) == nargs, (name, nargs)
    hows = ['lit'] * nargs
    tags = ['dflt'] * nargs
    for pos, i in devs:
        tags[pos], args[pos], hows[pos] = A.POOL[i]
    refonly = A.REF_ONLY.get(b, ())
    inputs = {}
    sp = [spell(v, 'ref' if (mode == 'ref' or p in refonly) else hows[p], p, inputs) for p, v in enumerate(args)]
    if b == 'ARRAYROW':
        f = '={%s}' % ','.join(sp)
    elif b == 'ARRAY':
        f = '={%s}' % ';'.join(sp)
    else:
        f = '=%s(%s)' % (name, ','.join(sp))
    return f, inputs, args, tags


def kind(v):
    return v[1] if v[0] == 'e' else v[0]


class Hang(BaseException):
    """raised from the CPU-time alarm: the call did not return."""


def _alarm(*a):
    raise Hang()


CPU_LIMIT = 2.0          # seconds of process CPU time per call (ordinary calls take ~3 ms, the slowest 0.15 s)
MEM_LIMIT = 6 << 30      # address space: a call that asks for more gets MemoryError instead of taking the machine down
_limits_set = []


def evaluate(f, inputs, grid_ref):
    from xl.evalcell import eval_formula
    if not _limits_set:
        _limits_set.append(1)
        soft, hard = resource.getrlimit(resource.RLIMIT_AS)
        if soft == resource.RLIM_INFINITY or soft > MEM_LIMIT:
            resource.setrlimit(resource.RLIMIT_AS, (MEM_LIMIT, hard))
        signal.signal(signal.SIGPROF, _alarm)
    signal.setitimer(signal.ITIMER_PROF, CPU_LIMIT, 0.25)      # re-fires in case the library swallows the first one
    try:
        return eval_formula(f, inputs, ref=grid_ref, scalar=False)
    except Hang:
        return ('BAD', 'hang:no result within %gs CPU' % CPU_LIMIT)
    finally:
        signal.setitimer(signal.ITIMER_PROF, 0)


def run_case(case):
    name, nargs, mode, devs = case
    b = A.base_name(name)
    f, inputs, args, tags = build(case)
    grid_ref = 'A1:D2' if any(A.is_array(a) for a in args) or b in A.INTERNAL else 'A1'
    got = evaluate(f, inputs, grid_ref)
    fields = dict(func=name, base=b, nargs=nargs, mode=mode, formula=f, devpos=','.join(str(p) for p, _ in devs),
                  devtags='|'.join(A.TAGS[i] for _, i in devs), args='|'.join(tags))
    fields.update({'a%d' % p: t for p, t in enumerate(tags)})
    fails = []
    if isinstance(got, tuple) and got[1] in ('exc:BroadcastError', 'missing-output') and A.mismatched(args):
        return result(1, ['%d:accepted-broadcast-escape' % min(nargs, 3)])
    if isinstance(got, tuple):                       # (a) an escape
        cls = 'missing-output' if got[1] == 'missing-output' else 'hangs' if got[1].startswith('hang') else 'raises'
        fails.append(Fail(cls, got=got[1], exp='an Excel value', gotk=got[1], **fields))
        return result(1, ['%d:%s' % (min(nargs, 3), got[1])], fails)
    flat = [x for row in got for x in row]
    top = flat[0]
    bad = sorted({x[1] for x in flat if x[0] == 'BAD'})
    if bad:                                          # (b) not an Excel value
        fails.append(Fail('ill-formed', got=bad[0], exp='finite number, text, logical, error or blank', gotk=bad[0], **fields))
    elif b in A.INTERNAL:                            # (c) for a literal: the element itself
        for p, a in enumerate(args):
            if a[0] == 'e' and (got[0][p] if b == 'ARRAYROW' else got[p][0]) != a:
                fails.append(Fail('error-lost', got=kind(top), exp=a[1], errpos=p, errtag=tags[p], gotk=kind(top), **fields))
    else:                                            # (c) error preservation
        for p, how in A.expect_error(name, args):
            ok = top[0] == 'e' if how == 'top' else any(x[0] == 'e' for x in flat)
            if not ok:
                fails.append(Fail('error-lost', got=kind(top), exp='an error (argument %d is %s)' % (p, tags[p]),
                                  errpos=p, errtag=tags[p], how=how, gotk=kind(top), **fields))
                break
    shape = 'arr' if any(x != top for x in flat) else 'scalar'
    return result(1, ['%d:%s:%s' % (min(nargs, 3), shape, 'BAD' if bad else kind(top))], fails)


# --- oracle audit against Excel's cached values (DESIGN.md 3.2) --------------------------------------------------------

CORPUS = '/repo/test/test_files/test.xlsx'
_CALL = re.compile(r'([A-Za-z_][A-Za-z0-9_.]*)\(')
_CELL = re.compile(r'\$?([A-Z]{1,3})\$?(\d+)$')
_RNG = re.compile(r'\$?([A-Z]{1,3})\$?(\d+):\$?([A-Z]{1,3})\$?(\d+)$')


def _split(s):
    out, depth, cur, q = [], 0, '', False
    for ch in s:
        if q or ch == '"':
            q = (not q) if ch == '"' else q
        elif ch in '({':
            depth += 1
        elif ch in ')}':
            depth -= 1
        if ch == ',' and depth == 0 and not q:
            out.append(cur)
            cur = ''
        else:
            cur += ch
    return out + [cur]


def _calls(f):
    """(NAME, [argument texts], start, end) of every call in a formula text."""
    for m in _CALL.finditer(f):
        if f[:m.start()].count('"') % 2:
            continue
        i, depth, q = m.end(), 1, False
        while i < len(f) and depth:
            ch = f[i]
            if q or ch == '"':
                q = (not q) if ch == '"' else q
            elif ch == '(':
                depth += 1
            elif ch == ')':
                depth -= 1
            i += 1
        inner = f[m.end():i - 1]
        yield m.group(1).upper(), (_split(inner) if inner.strip() else []), m.start(), i


def _val(x):
    from ref.values import N, T, B, BLANK
    if x is None:
        return BLANK
    if isinstance(x, bool):
        return B(x)
    if isinstance(x, (int, float)):
        return N(x)
    return ('e', x) if x in A.ERRS else T(str(x))


def _arg(ws, a):
    a = a.strip()
    m = _CELL.match(a)
    if m:
        return _val(ws[m.group(1) + m.group(2)].value)
    m = _RNG.match(a)
    if m:
        return ('arr', [[_val(c.value) for c in row] for row in ws['%s%s:%s%s' % m.groups()]])
    if re.fullmatch(r'-?\d+(\.\d+)?', a):
        return ('n', float(a))
    if re.fullmatch(r'"[^"]*"', a):
        return ('t', a[1:-1])
    if a in ('TRUE', 'FALSE'):
        return ('b', a == 'TRUE')
    return ('e', a) if a in A.ERRS else None


def audit():
    """ref/arity.py against the 5 6xx corpus formulas and the values Excel computed for them:
    (1) every call in the corpus has an argument count the table admits (Excel accepted it);
    (2) for every single-cell formula =NAME(cells | ranges | constants): where the (c) table demands an error,
        Excel's value is an error.  Returns a summary; a disagreement is an oracle error (never a VIOLATION)."""
    import openpyxl
    wf, wv = openpyxl.load_workbook(CORPUS), openpyxl.load_workbook(CORPUS, data_only=True)
    nform, ncalls, nobl, funcs, bad = 0, 0, 0, set(), []
    for ws in wf.worksheets:
        wsv = wv[ws.title]
        for row in ws.iter_rows():
            for c in row:
                f = c.value
                arrayf = hasattr(f, 'text')
                f = f.text if arrayf else f
                if not (isinstance(f, str) and f.startswith('=')):
                    continue
                nform += 1
                cs = list(_calls(f))
                for name, args, s, e in cs:
                    b = A.base_name(name)
                    if b in A.ARITY:
                        lo, hi, _ = A.ARITY[b]
                        ncalls += 1
                        if len(args) < lo or (hi is not None and len(args) > hi):
                            bad.append('arity %s/%d in %s!%s %s' % (b, len(args), ws.title, c.coordinate, f))
                if arrayf or not cs or cs[0][2] != 1 or cs[0][3] != len(f) or A.base_name(cs[0][0]) not in A.ARITY:
                    continue
                vals = [_arg(wsv, a) for a in cs[0][1]]
                if any(v is None for v in vals):
                    continue
                # an 'any' obligation speaks about the whole result grid; a plain cell shows one element only
                if any(how == 'top' for _, how in A.expect_error(cs[0][0], vals)):
                    nobl += 1
                    funcs.add(A.base_name(cs[0][0]))
                    if _val(wsv[c.coordinate].value)[0] != 'e':
                        bad.append('error-preservation %s!%s %s: Excel gives %r' % (ws.title, c.coordinate, f, wsv[c.coordinate].value))
    return {'corpus_formulas': nform, 'calls_with_admitted_count': ncalls, 'error_obligations_confirmed_by_excel': nobl,
            'functions_with_confirmed_obligations': len(funcs), 'disagreements': bad}


# --- the case space -----------------------------------------------------------------------------------------------

def max_bindable(fn):
    """largest positional argument count the innermost python signature can bind; None = unknown / unbounded.
    Used one way only: a count Excel admits but the signature cannot take would be a guaranteed TypeError -> #VALUE!."""
    fn = fn['function'] if isinstance(fn, dict) else fn
    try:
        ps = inspect.signature(inspect.unwrap(fn)).parameters.values()
    except (ValueError, TypeError):
        return None
    if any(p.kind == p.VAR_POSITIONAL for p in ps):
        return None
    return sum(p.kind in (p.POSITIONAL_ONLY, p.POSITIONAL_OR_KEYWORD) for p in ps)


def plan(tier, functions):
    """[(name, nargs, mode, full_product?, k, reps_from)] and the list of skipped 'name/nargs'.
    k = max number of deviating positions; subsets of >= reps_from positions draw from the REPS sub-pool."""
    thorough = tier == 'thorough'
    out, skipped = [], []
    for name in sorted(functions):
        b = A.base_name(name)
        # a key bound to the very same object as its base name is explored with one deviation less
        alias = name != b and b in functions and functions[name] is functions[b]
        mb = None if b in A.INTERNAL else max_bindable(functions[name])
        for n in A.counts(name):
            if mb is not None and n > mb:
                skipped.append('%s/%d' % (name, n))
                continue
            full, k = (3, 3) if thorough else (2, 2)
            reps_from = 3 if thorough or n <= 3 else 2
            if alias:
                full, k = full - 1, k - 1
            out.append((name, n, 'lit', n <= full, k, reps_from))
            if thorough and b not in A.INTERNAL:       # every argument through cell references, at the quick bound
                q = 1 if alias else 2
                out.append((name, n, 'ref', n <= q, q, 3 if n <= 3 else 2))
    return out, skipped


def pool_indices(name, reps):
    idx = A.REPS if reps else range(len(A.POOL))
    if A.base_name(name) in A.INTERNAL:   # literal elements must be constants
        return [i for i in idx if A.POOL[i][2] == 'lit' and not A.is_array(A.POOL[i][1])]
    return list(idx)


def cases_of(name, n, mode, full, k, reps_from):
    if full or n == 0:
        for vals in itertools.product(pool_indices(name, False), repeat=n):
            yield [name, n, mode, [list(pv) for pv in enumerate(vals)]]
        if n:
            yield [name, n, mode, []]                # the default call is part of every space
        return
    for m in range(0, min(k, n) + 1):
        idx = pool_indices(name, m >= reps_from)
        for pos in itertools.combinations(range(n), m):
            for vals in itertools.product(idx, repeat=m):
                yield [name, n, mode, [list(pv) for pv in zip(pos, vals)]]


# --- many arguments: the library has a separate path for calls with 32 or more arguments ---------------------------------
MANY = [('CONCATENATE', '"x"'), ('CONCAT', '"x"'), ('SUM', '1'), ('MAX', '1'), ('MIN', '1'), ('PRODUCT', '1'), ('AVERAGE', '1'), ('AND', 'TRUE'),
        ('OR', 'FALSE'), ('XOR', 'FALSE'), ('SUMSQ', '1'), ('MEDIAN', '1'), ('COUNTA', '1'), ('IFS', None), ('SWITCH', None)]


def many_cases():
    for name, filler in MANY:
        for n in (31, 32, 33, 40):
            for pos in sorted({1, 2, 16, n - 1, n}):
                for how in ('lit', 'ref', 'none'):
                    for err in ('#N/A', '#DIV/0!'):
                        if how == 'none' and (pos != 1 or err != '#N/A'):
                            continue
                        yield ['many', name, n, pos, how, err]


def run_many(case):
    _, name, n, pos, how, err = case
    e = 'B1' if how == 'ref' else err
    inputs = {'B1': ('e', err)} if how == 'ref' else {}
    filler = dict(MANY)[name]
    consumed = True
    if name == 'IFS':            # pairs (condition, value); the error is a condition that is reached, or the selected value
        args = ['FALSE', '0'] * (n // 2)
        args[-2:] = ['TRUE', '"last"']
        if how != 'none':
            k = min((pos - 1) // 2 * 2, len(args) - 4)      # before the final catch-all pair
            args[k:k + 2] = [e, '5'] if pos % 2 else ['TRUE', e]
        n_eff = len(args)
    elif name == 'SWITCH':       # SWITCH(value, key, result, ..., default)
        args = ['2'] + [x for i in range((n - 1) // 2) for x in (str(9000 + i), '"x"')]
        if len(args) < n or how == 'none':
            args.append('"d"')
        if how != 'none':
            if pos == 1:
                args[0] = e
            elif pos % 2 == 0:
                args[pos - 1] = e          # a key: compared with the value -> error
            else:
                args[pos - 2:pos] = ['2', e]   # the selected result
    elif name == 'CHOOSE':
        args = ['1'] + ['"c%d"' % i for i in range(n - 1)]
        if how != 'none':
            if pos == 1:
                args[0] = e
            else:
                args[0], args[pos - 1] = str(pos - 1), e
    else:
        args = [filler] * n
        if how != 'none':
            args[pos - 1] = e
        consumed = name != 'COUNTA'
    f = '=%s(%s)' % (name, ','.join(args))
    got = evaluate(f, inputs, 'A1')
    fields = dict(func=name, base=name, nargs=len(args), mode='many', formula=f[:120], errpos=pos, how=how, err=err)
    fails = []
    if isinstance(got, tuple):
        fails.append(Fail('missing-output' if got[1] == 'missing-output' else 'raises', got=got[1], exp='an Excel value', gotk=got[1], **fields))
        return result(1, ['many:%s' % got[1]], fails)
    top = got[0][0]
    if top[0] == 'BAD':
        fails.append(Fail('ill-formed', got=top[1], exp='an Excel value', gotk=top[1], **fields))
    elif how != 'none' and consumed and top[0] != 'e':
        fails.append(Fail('error-lost', got=kind(top), exp='an error (argument %d of %d is %s)' % (pos, len(args), err), gotk=kind(top), **fields))
    elif how == 'none' and top[0] == 'e':
        fails.append(Fail('spurious-error', got=kind(top), exp='a value', gotk=kind(top), **fields))
    return result(1, ['many:%s:%s' % ('ge32' if len(args) >= 32 else 'lt32', kind(top))], fails)


# --- huge magnitudes in array arguments: partial results that overflow with either or both signs ---------------------------
HUGE_FN = ['MMULT', 'SUMPRODUCT', 'SUM', 'PRODUCT', 'SUMSQ', 'AVERAGE', 'STDEV', 'VAR', 'STDEVP', 'VARP', 'MAX', 'MIN', 'MEDIAN', 'DEVSQ', 'GEOMEAN', 'HARMEAN',
           'SUMX2MY2', 'SUMX2PY2', 'SUMXMY2', 'CORREL', 'SLOPE', 'INTERCEPT', 'NPV', 'IRR', 'MDETERM', 'MINVERSE', 'TRANSPOSE', 'GCD', 'LCM', 'XNPV']
HUGE_ARR = ['{1E+200,0;0,1E+200}', '{1E-320}', '{1E+308,1E+308;1,2}', '{1E-200,0;0,1E-200}', '{1E+200,1E+200}', '{1E+200;-1E+200}', '{1E+200;1E+200}', '{1E+200,-1E+200}', '{1E+308,1E+308}', '{1E+308;-1E+308}', '{-1E+308,-1E+308}', '{1E-200,1E-200}',
            '{1E+200,1E-200}', '{0,1E+308}']


def huge_cases(functions):
    for fn in HUGE_FN:
        if fn not in functions:
            continue
        for a in HUGE_ARR:
            yield ['huge', fn, a, None]
            for b in HUGE_ARR:
                yield ['huge', fn, a, b]


def run_huge(case):
    _, fn, a, b = case
    f = '=%s(%s)' % (fn, a if b is None else '%s,%s' % (a, b))
    got = evaluate(f, {}, 'A1:B2')
    fields = dict(func=fn, base=fn, nargs=1 if b is None else 2, mode='huge', formula=f, args='%s|%s' % (a, b))
    if isinstance(got, tuple):
        if got[1] in ('exc:BroadcastError',):
            return result(1, ['huge:accepted-broadcast-escape'])
        return result(1, ['huge:%s' % got[1]], [Fail('missing-output' if got[1] == 'missing-output' else 'raises', got=got[1], exp='an Excel value', gotk=got[1], **fields)])
    bad = sorted({x[1] for row in got for x in row if x[0] == 'BAD'})
    fails = [Fail('ill-formed', got=bad[0], exp='finite number, text, logical, error or blank', gotk=bad[0], **fields)] if bad else []
    return result(1, ['huge:%s' % kind(got[0][0])], fails)


# --- paired series (CORREL, SLOPE, FORECAST...): an error in one series opposite every kind of element in the other ----------
PAIRED = ['CORREL', 'SLOPE', 'FORECAST', 'FORECAST.LINEAR', 'SUMX2MY2', 'SUMX2PY2', 'SUMXMY2']
OPPOSITE = {'num': ('n', 2.0), 'blank': ('blank',), 'text': ('t', 'x'), 'log': ('b', True), 'empty': ('t', ''), 'err': ('e', '#DIV/0!'), 'numtext': ('t', '7')}


def paired_cases(functions):
    for fn in PAIRED:
        if fn not in functions:
            continue
        for n in (3, 5):
            for pos in range(n):
                for side in (0, 1):
                    for opp in OPPOSITE:
                        for orient in ('col', 'row'):
                            for err in ('#N/A', '#VALUE!'):
                                yield ['paired', fn, n, pos, side, opp, orient, err]


def run_paired(case):
    _, fn, n, pos, side, opp, orient, err = case
    ys = [('n', float(v)) for v in (1, 3, 4, 8, 9)[:n]]
    xs = [('n', float(v)) for v in (1, 2, 4, 5, 7)[:n]]
    series = [ys, xs]
    series[side][pos] = ('e', err)
    series[1 - side][pos] = OPPOSITE[opp]
    if orient == 'col':
        refs = ['B1:B%d' % n, 'C1:C%d' % n]
        inputs = {refs[k]: ('arr', [[v] for v in series[k]]) for k in (0, 1)}
    else:
        refs = ['B1:%s1' % 'BCDEF'[n - 1], 'B2:%s2' % 'BCDEF'[n - 1]]
        inputs = {refs[k]: ('arr', [list(series[k])]) for k in (0, 1)}
    f = '=%s(%s%s,%s)' % (fn, '3,' if fn.startswith('FORECAST') else '', refs[0], refs[1])
    got = evaluate(f, inputs, 'A1')
    fields = dict(func=fn, base=fn, nargs=2, mode='paired', formula=f, errpos=pos, side=side, opposite=opp, orient=orient, err=err, n=n)
    if isinstance(got, tuple):
        return result(1, ['paired:%s' % got[1]], [Fail('missing-output' if got[1] == 'missing-output' else 'raises', got=got[1], exp='an Excel value', gotk=got[1], **fields)])
    top = got[0][0]
    fails = []
    if top[0] == 'BAD':
        fails.append(Fail('ill-formed', got=top[1], exp='an Excel value', gotk=top[1], **fields))
    elif top[0] != 'e':
        fails.append(Fail('error-lost', got=kind(top), exp='an error (%s in series %d opposite %s)' % (err, side, opp), gotk=kind(top), **fields))
    return result(1, ['paired:%s' % kind(top)], fails)


_run_case_functions = run_case


def run_case(case):
    if case and case[0] == 'many':
        return run_many(case)
    if case and case[0] == 'huge':
        return run_huge(case)
    if case and case[0] == 'paired':
        return run_paired(case)
    return _run_case_functions(case)


def run(ctx):
    import formulas
    functions = dict(formulas.get_functions())
    miss = A.missing(functions)
    if miss:
        sys.stderr.write('HARNESS-ERROR C11 completeness: no argument-count entry in ref/arity.py for %s\n' % ', '.join(miss))
        sys.exit(2)
    au = audit()
    if au['disagreements']:
        sys.stderr.write('HARNESS-ERROR C11 oracle audit: ref/arity.py disagrees with Excel\'s cached values:\n  %s\n'
                         % '\n  '.join(au['disagreements'][:20]))
        sys.exit(2)
    pl, skipped = plan(ctx.tier, functions)
    ctx.explore(run_case, (c for p in pl for c in cases_of(*p)), chunksize=128, label='function x count x tuples')
    ctx.explore(run_case, many_cases(), chunksize=16, label='calls with 31-40 arguments')
    ctx.explore(run_case, huge_cases(functions), chunksize=16, label='huge magnitudes in array arguments')
    ctx.explore(run_case, paired_cases(functions), chunksize=32, label='paired series: error opposite every kind')
    return {'oracle_audit': au, 'functions': len(functions), 'function_count_pairs': len({(p[0], p[1]) for p in pl}), 'pool_size': len(A.POOL),
            'full_product_up_to_arity': 3 if ctx.tier == 'thorough' else 2, 'deviation_bound': 3 if ctx.tier == 'thorough' else 2,
            'variadic_cap': 'min+3', 'unbindable_counts': skipped,
            'aliases_same_object_reduced_bound': sorted(n for n in functions if n != A.base_name(n)
                                                        and functions.get(A.base_name(n)) is functions[n])}
