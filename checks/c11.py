"""C11 Worksheet functions are total and never lose an error value.
Engine E1: every registered function x every admissible argument count x argument
tuples over a fixed value pool (full product for low arity, default call with a
bounded number of deviating positions above)."""
import sys, itertools, inspect, functools
from mc.core import Fail, result
from ref import arity as A
from ref.values import literal

MANIFEST = {
    'engine': 'E1',
    'technique': 'bounded exhaustive enumeration of function x argument count x argument-kind tuples on the real code; '
                 'totality, well-formedness and an error-preservation table as oracle',
    'text': 'Every key of the function table (completeness asserted against a hand-written table of Excel argument counts) is called '
            'through the single-formula path with every admissible argument count (variadic functions: min..min+3) and argument tuples '
            'over a fixed pool of 24 values of every kind (numbers, text, logicals, blank reference, the 7 errors, two array literals, '
            'a range with a blank, an empty-text cell): the full product for <= 2 arguments (thorough <= 3), a benign default call with '
            '<= 2 (thorough <= 3) positions replaced by every pool value above that; thorough also passes every argument through cell references. '
            'Exhaustive within these bounds, nothing sampled.',
    'note': 'Trusted: ref/arity.py (Excel argument counts, default calls, table of positions whose error is certainly consumed). '
            'Only escapes, ill-formed values and lost errors are judged, not the values themselves; values outside the pool, more than '
            'k deviating positions at high arity and more than min+3 arguments of variadic functions are not decided.',
}
RULE = ('every (function key, argument count, spelling mode, deviating positions -> pool value); non-trivial = executed on the '
        'implementation; distinct = distinct case key')
ASSUMPTIONS = [
    'argument counts, default calls and the consumed-position table are my reading of Excel\'s function reference (ref/arity.py)',
    '(c) is asserted for a scalar error in every position except: IFERROR IFNA IS* T (inspect/handle errors); COUNT COUNTA COUNTBLANK '
    'COUNTIF SUMIF AVERAGEIF (errors are data/criteria); IF (condition + the selected branch) IFS SWITCH (first position only); '
    'INDEX (row/column numbers) MATCH (value, match type) LOOKUP VLOOKUP HLOOKUP (value, index, mode) FILTER (include); ROW COLUMN; '
    'ADDRESS sheet text; NPV value arguments (Excel\'s reference says error values there are ignored); DUMMYFUNCTION',
    '(c) for an error inside an array argument is asserted only for aggregations (SUM family, statistics, AND/OR/XOR, GCD/LCM, CONCAT, '
    'TEXTJOIN texts, LARGE/SMALL/PERCENTILE/QUARTILE data, matrix functions) and, as "the result grid contains an error", for '
    'scalar-parameter functions when every other argument is a scalar; not for CORREL SLOPE FORECAST IRR XIRR XNPV TRANSPOSE SINGLE MUNIT',
    'volatile functions NOW TODAY RAND RANDBETWEEN get (a) and (b) only',
    'positions where Excel accepts only a reference (ROW COLUMN COUNTBLANK COUNTIF/SUMIF/AVERAGEIF ranges) always receive ranges',
    'ARRAY/ARRAYROW are the library\'s array-literal constructors, exercised as ={...} literals with constant elements',
    'argument counts that the implementation\'s innermost signature cannot bind (a guaranteed TypeError -> #VALUE!) are skipped and '
    'listed in coverage.unbindable_counts',
]

COLS = 'BCDEFGH'


def array_literal(v):
    rows = [[literal(x) for x in row] for row in v[1]]
    if any(x is None for r in rows for x in r):
        return None
    return '{%s}' % ';'.join(','.join(r) for r in rows)


def spell(v, how, pos, inputs):
    """text of one argument; 'ref' spelling puts the value into the block of cells reserved for the position."""
    if how == 'lit':
        s = array_literal(v) if A.is_array(v) else literal(v)
        if s is not None:
            return s
    r0 = 11 + 10 * pos
    if A.is_array(v):
        ref = 'B%d:%s%d' % (r0, COLS[len(v[1][0]) - 1], r0 + len(v[1]) - 1)
    else:
        ref = 'B%d' % r0
    inputs[ref] = v
    return ref


def build(case):
    name, nargs, mode, devs = case
    b = A.base_name(name)
    args = A.defaults(name, nargs)
    assert len(args) == nargs, (name, nargs)
    hows = ['lit'] * nargs
    tags = ['dflt'] * nargs
    for pos, i in devs:
        tags[pos], args[pos], hows[pos] = A.POOL[i]
    refonly = A.REF_ONLY.get(b, ())
    inputs = {}
    sp = [spell(v, 'ref' if (mode == 'ref' or p in refonly) else hows[p], p, inputs) for p, v in enumerate(args)]
    if b == 'ARRAYROW':
        f = '={%s}' % ','.join(sp)
    elif b == 'ARRAY':
        f = '={%s}' % ';'.join(sp)
    else:
        f = '=%s(%s)' % (name, ','.join(sp))
    return f, inputs, args, tags


def kind(v):
    return v[1] if v[0] == 'e' else v[0]


def run_case(case):
    from xl.evalcell import eval_formula
    name, nargs, mode, devs = case
    b = A.base_name(name)
    f, inputs, args, tags = build(case)
    grid_ref = 'A1:D2' if any(A.is_array(a) for a in args) or b in A.INTERNAL else 'A1'
    got = eval_formula(f, inputs, ref=grid_ref, scalar=False)
    fields = dict(func=name, base=b, nargs=nargs, mode=mode, formula=f, devpos=','.join(str(p) for p, _ in devs),
                  devtags='|'.join(A.TAGS[i] for _, i in devs), args='|'.join(tags))
    fields.update({'a%d' % p: t for p, t in enumerate(tags)})
    fails = []
    if isinstance(got, tuple):                       # (a) an escape
        cls = 'missing-output' if got[1] == 'missing-output' else 'raises'
        fails.append(Fail(cls, got=got[1], exp='an Excel value', gotk=got[1], **fields))
        return result(1, ['%d:%s' % (min(nargs, 3), got[1])], fails)
    flat = [x for row in got for x in row]
    top = flat[0]
    bad = sorted({x[1] for x in flat if x[0] == 'BAD'})
    if bad:                                          # (b) not an Excel value
        fails.append(Fail('ill-formed', got=bad[0], exp='finite number, text, logical, error or blank', gotk=bad[0], **fields))
    elif b in A.INTERNAL:                            # (c) for a literal: the element itself
        for p, a in enumerate(args):
            if a[0] == 'e' and (got[0][p] if b == 'ARRAYROW' else got[p][0]) != a:
                fails.append(Fail('error-lost', got=kind(top), exp=a[1], errpos=p, errtag=tags[p], gotk=kind(top), **fields))
    else:                                            # (c) error preservation
        for p, how in A.expect_error(name, args):
            ok = top[0] == 'e' if how == 'top' else any(x[0] == 'e' for x in flat)
            if not ok:
                fails.append(Fail('error-lost', got=kind(top), exp='an error (argument %d is %s)' % (p, tags[p]),
                                  errpos=p, errtag=tags[p], how=how, gotk=kind(top), **fields))
                break
    shape = 'arr' if any(x != top for x in flat) else 'scalar'
    return result(1, ['%d:%s:%s' % (min(nargs, 3), shape, 'BAD' if bad else kind(top))], fails)


# --- the case space -----------------------------------------------------------------------------------------------

def max_bindable(fn):
    """largest positional argument count the innermost python signature can bind; None = unknown / unbounded."""
    extra = 0
    if isinstance(fn, dict):
        extra = len(fn.get('extra_inputs', ()))
        fn = fn['function']
    try:
        f = inspect.unwrap(fn)
        while isinstance(f, functools.partial) and not f.args:
            g = inspect.unwrap(f.func)
            if g is f.func and not isinstance(g, functools.partial):
                break
            f = g
        ps = inspect.signature(f).parameters.values()
    except (ValueError, TypeError):
        return None
    if any(p.kind == p.VAR_POSITIONAL for p in ps):
        return None
    return sum(p.kind in (p.POSITIONAL_ONLY, p.POSITIONAL_OR_KEYWORD) for p in ps) - (0 if extra == 0 else 0)


def plan(tier, functions):
    """[(name, nargs, mode, full_product?, k)] and the list of skipped (name, nargs)."""
    full, k = (3, 3) if tier == 'thorough' else (2, 2)
    modes = ['lit', 'ref'] if tier == 'thorough' else ['lit']
    out, skipped = [], []
    for name in sorted(functions):
        b = A.base_name(name)
        alias = name != b and b in functions and functions[name] is functions[b]
        mb = None if b in A.INTERNAL else max_bindable(functions[name])
        for n in A.counts(name):
            if mb is not None and n > mb:
                skipped.append('%s/%d' % (name, n))
                continue
            for mode in (['lit'] if b in A.INTERNAL else modes):
                # a key bound to the very same object as its base name is explored with one deviation less
                kk = k - 1 if alias else k
                ff = full - 1 if alias else full
                if mode == 'ref' and tier == 'thorough':
                    ff, kk = min(ff, 2), min(kk, 2)
                out.append((name, n, mode, n <= ff, kk))
    return out, skipped


def pool_indices(name, mode):
    if A.base_name(name) in A.INTERNAL:   # literal elements must be constants
        return [i for i, (t, v, how) in enumerate(A.POOL) if how == 'lit' and not A.is_array(v)]
    return list(range(len(A.POOL)))


def cases_of(name, n, mode, full, k):
    idx = pool_indices(name, mode)
    sizes = [n] if full else range(0, min(k, n) + 1)
    if n == 0:
        yield [name, 0, mode, []]
        return
    for m in sizes:
        for pos in itertools.combinations(range(n), m):
            for vals in itertools.product(idx, repeat=m):
                yield [name, n, mode, [list(pv) for pv in zip(pos, vals)]]
    if full:                                         # the default call is part of every space
        yield [name, n, mode, []]


def run(ctx):
    import formulas
    functions = dict(formulas.get_functions())
    miss = A.missing(functions)
    if miss:
        sys.stderr.write('HARNESS-ERROR C11 completeness: no argument-count entry in ref/arity.py for %s\n' % ', '.join(miss))
        sys.exit(2)
    pl, skipped = plan(ctx.tier, functions)
    for name, n, mode, full, k in pl:
        pass
    ctx.explore(run_case, (c for p in pl for c in cases_of(*p)), chunksize=128, label='function x count x tuples')
    return {'functions': len(functions), 'function_count_pairs': len({(p[0], p[1]) for p in pl}), 'pool_size': len(A.POOL),
            'full_product_up_to_arity': 3 if ctx.tier == 'thorough' else 2, 'deviation_bound': 3 if ctx.tier == 'thorough' else 2,
            'variadic_cap': 'min+3', 'unbindable_counts': skipped,
            'aliases_same_object_reduced_bound': sorted(n for n in functions if n != A.base_name(n)
                                                        and functions.get(A.base_name(n)) is functions[n])}
