"""C01 Formulas are parsed according to Excel's operator grammar.
Engine E1: all operator nests with <= 3 (thorough: 4 over rank representatives)
operator nodes x all spellings; calls and array literals with a probe function."""
import itertools
from mc.core import Fail, result
from ref import grammar as G
from ref import scalar as S
from ref.values import *

MANIFEST = {
    'engine': 'E1',
    'technique': 'bounded exhaustive enumeration of expression trees x spellings, parser output compared with reference printer/evaluator',
    'text': 'All expression trees with 1..3 operator nodes over the 15 operators (every ordered pair and triple, every shape; '
            'thorough adds all 4-node trees over one operator per rank), each in every spelling (minimal, sign-run-free, fully '
            'parenthesised, spaced with blanks, line breaks, tabs and CR LF, every subtree redundantly wrapped), plus calls/array literals with empty arguments and separator-bearing (also separator-only: "," ")" "(" ";") '
            'text through a probe function, are parsed by the real parser; exported text, value and received arguments are compared with a reference printer/evaluator.' ' Later additions: references as call arguments with blanks right inside the parentheses; leaves .5, 1E+2, 2.50 and ""; tab / CR LF spacings; logical and error constants in every letter case, judged by export and value against the upper-case spelling in seven contexts.',
    'note': 'Trusted: ref/grammar.py printers and ref/scalar.py evaluator; sound sign-run foldings are accepted (DESIGN.md C01 Compare); x%% excluded.',
}
RULE = ('tree generator: every tree with n operator nodes over 12 binary + 3 unary operators, leaves 2,3,5,7 in order; '
        'per tree every spelling; non-trivial = parsed by the implementation; distinct = distinct (tree, spelling) key')
ASSUMPTIONS = ['exported text compared modulo value-preserving sign-run normalisation only',
               'operand values limited to the leaf alphabet; random depth-5 trees of the statement are not explored (exhaustive bound instead)']

NUMS = [G.leaf('2', N(2)), G.leaf('3', N(3)), G.leaf('5', N(5)), G.leaf('7', N(7))]
ALT_LEAVES = [G.leaf('4', N(4)), G.leaf('"3"', T('3')), G.leaf('TRUE', B(True)), G.leaf('#N/A', NA), G.leaf('B1', None),
              G.leaf('"ab"', T('ab')), G.leaf('0.5', N(0.5)), G.leaf('""', T('')), G.leaf('.5', N(0.5)), G.leaf('1E+2', N(100)), G.leaf('2.50', N(2.5))]
ENV = {'B1': N(6)}
REPS = ['=', '&', '+', '*', '^']


def tree_from(spec):
    """spec is the JSON form of a tree (lists)."""
    if spec[0] == 'leaf':
        return ('leaf', spec[1], tuple(spec[2]) if spec[2] is not None else None)
    if spec[0] == 'bin':
        return ('bin', spec[1], tree_from(spec[2]), tree_from(spec[3]))
    if spec[0] in ('neg', 'pos', 'pct'):
        return (spec[0], tree_from(spec[1]))
    if spec[0] == 'call':
        return ('call', spec[1], [tree_from(a) for a in spec[2]])
    if spec[0] == 'empty':
        return ('empty',)
    if spec[0] == 'arr':
        return ('arr', [[tree_from(e) for e in row] for row in spec[1]])
    raise ValueError(spec)


def replace_leaf(t, idx, new, _c=None):
    c = _c if _c is not None else [0]
    if t[0] == 'leaf':
        c[0] += 1
        return new if c[0] - 1 == idx else t
    if t[0] == 'bin':
        l = replace_leaf(t[2], idx, new, c)
        r = replace_leaf(t[3], idx, new, c)
        return ('bin', t[1], l, r)
    return (t[0], replace_leaf(t[1], idx, new, c))


def nleaves(t):
    if t[0] == 'leaf':
        return 1
    if t[0] == 'bin':
        return nleaves(t[2]) + nleaves(t[3])
    return nleaves(t[1])


def has_pctpct(t):
    if t[0] == 'leaf':
        return False
    if t[0] == 'bin':
        return has_pctpct(t[2]) or has_pctpct(t[3])
    if t[0] == 'pct' and t[1][0] == 'pct':
        return True
    return has_pctpct(t[1])


def mixes_pct_sign(t):
    if t[0] == 'leaf':
        return False
    if t[0] == 'bin':
        return mixes_pct_sign(t[2]) or mixes_pct_sign(t[3])
    if (t[0] == 'pct' and t[1][0] in ('neg', 'pos', 'pct')) or (t[0] in ('neg', 'pos') and t[1][0] == 'pct'):
        return True
    return mixes_pct_sign(t[1])


def nest_cases(tier):
    sizes = (1, 2, 3)
    for n in sizes:
        for t, _ in G.trees(n, NUMS):
            yield ['nest', t, 'all']
    # one leaf replaced by another kind (text, logical, error, reference, fraction)
    for n in (1, 2):
        for t, _ in G.trees(n, NUMS):
            for i in range(nleaves(t)):
                for alt in ALT_LEAVES:
                    yield ['nest', replace_leaf(t, i, alt), 'val']
    # an even exponent/base at every position of every 3-operator tree (sign vs ^)
    for t, _ in G.trees(3, NUMS):
        for i in range(nleaves(t)):
            yield ['nest', replace_leaf(t, i, ALT_LEAVES[0]), 'val']
    if tier == 'thorough':
        for t, _ in G.trees(4, NUMS, ops=REPS):
            yield ['nest', t, 'basic']
        for t, _ in G.trees(3, NUMS):
            for i in range(nleaves(t)):
                for alt in ALT_LEAVES[1:5]:
                    yield ['nest', replace_leaf(t, i, alt), 'val']


def spellings(t, mode):
    out = [('mini', G.spell(t, 'mini')), ('safe', G.spell(t, 'safe')), ('paren', G.spell(t, 'paren'))]
    if not mixes_pct_sign(t):
        # the library's rendering does not parenthesise unary/percent nests, so for those
        # trees the rendering is not a spelling of one tree (value-equivalent readings)
        out.append(('full', G.full(t)))
    if mode in ('all', 'basic'):
        out.append(('mini-sp', G.spell(t, 'mini', ' ')))
        out.append(('safe-sp2', G.spell(t, 'safe', '  ')))
        out.append(('safe-nl', G.spell(t, 'safe', ' \n ')))
        out.append(('mini-tab', G.spell(t, 'mini', '\t')))
        out.append(('safe-crlf', G.spell(t, 'safe', '\r\n')))
        out.append(('paren-tabsp', G.spell(t, 'paren', ' \t ')))
    if mode == 'all':
        for p in G.paths(t):
            out.append(('wrap1', G.spell(t, 'safe', '', {p: 1})))
        out.append(('wrap2', G.spell(t, 'safe', '', {(): 2})))
        out.append(('wrap-lead-sp', ' ' + G.spell(t, 'safe', '', {(): 1})))
    seen, res = set(), []
    for k, s in out:
        if s not in seen:
            seen.add(s)
            res.append((k, s))
    return res


def parse(text):
    from formulas import Parser
    from formulas.errors import FormulaError
    try:
        return 'ok', Parser().ast(text)[1]
    except FormulaError:
        return 'FormulaError', None
    except Exception as e:
        return 'ESC:' + type(e).__name__, None


def value_of(builder, env=None):
    from xl.evalcell import classify, to_input, exc_name
    try:
        func = builder.compile()
        args = []
        for k in func.inputs:
            from formulas.ranges import Ranges
            args.append(Ranges().push(k, to_input(env[k])))
        v = func(*args)
        import numpy as np
        v = np.asarray(v, object)
        return classify(v.ravel()[0]) if v.size == 1 else ('BAD', 'shape%s' % (v.shape,))
    except Exception as e:
        return ('BAD', 'exc:' + exc_name(e))


def run_nest(case):
    _, spec, mode = case
    t = tree_from(spec)
    if has_pctpct(t):
        return result(0, ['skip:%%'])
    exp_full = G.full(t)
    exp_norm = G.full(G.normalise(t))
    exp_val = G.evaluate(t, ENV)
    fails, oc, n = [], [], 0
    for kind, s in spellings(t, mode):
        n += 1
        st, b = parse('=' + s)
        sr = G.has_sign_run(s)
        if st != 'ok':
            fails.append(Fail('rejected-valid', got=st, exp=exp_full, text=s, spelling=kind, signrun=sr))
            oc.append('rejected')
            continue
        got = b[-1].get_expr
        if got not in (exp_full, exp_norm):
            fails.append(Fail('export', got=got, exp=exp_full, text=s, spelling=kind, signrun=sr))
            oc.append('export-diff')
        else:
            oc.append('export-ok' if got == exp_full else 'export-ok-normalised')
        if kind in ('mini', 'safe', 'full') and exp_val is not None:
            n += 1
            v = value_of(b, ENV)
            if not S.accepted(v, exp_val):
                fails.append(Fail('value', got=v, exp=sorted(map(str, exp_val)), text=s, spelling=kind, signrun=sr))
            oc.append('val:' + (v[0] if v[0] != 'e' else v[1]))
    return result(n, sorted(set(oc)), fails)


# ----------------------------------------------------------- calls and arrays
ARG_ATOMS = [
    ('1', "1"), ('x+y', '2+3'), ('text,', '"a,b"'), ('text;)', '"x;)("'), ('text{', '"{1,2}"'), ('text"', '"q""r"'),
    ('call', 'SUM(4,5)'), ('union', '(B1,C1)'), ('array', '{1,2;3,4}'), ('neg', '-6'), ('empty', ''),
    ('text=,', '","'), ('text=)', '")"'), ('text=(', '"("'), ('ref', 'B1'),
]
ARG_EXPR = {
    '1': ('1', '1'), 'x+y': ('(2 + 3)', '5'), 'text,': ('"a,b"', "'a,b'"), 'text;)': ('"x;)("', "'x;)('"), 'text{': ('"{1,2}"', "'{1,2}'"),
    'text"': ('"q""r"', "'q\"r'"), 'call': ('SUM(4, 5)', '9'), 'union': ('(B1, C1)', 'R[B1,C1]'), 'array': ('ARRAY(ARRAY(1, 2), ARRAY(3, 4))', 'A[[1,2],[3,4]]'),
    'neg': ('-6', '-6'), 'empty': ('', 'EMPTY'), 'text=,': ('","', "','"), 'text=)': ('")"', "')'"), 'text=(': ('"("', "'('"), 'ref': ('B1', 'R[B1]'),
}


def call_cases(tier):
    keys = [k for k, _ in ARG_ATOMS]
    maxn = 3 if tier == 'quick' else 4
    for n in range(0, maxn + 1):
        for combo in itertools.product(keys, repeat=n):
            for sp in ('', ' ') + (('\t',) if n <= 2 else ()):
                for nested in (False, True):
                    yield ['call', list(combo), sp, nested]
                    if sp and n <= 2:
                        yield ['call', list(combo), sp, nested, 'inner']


def _probe(*args):
    import numpy as np
    from formulas.ranges import Ranges

    def r(a):
        if isinstance(a, Ranges):
            return 'R[%s]' % ','.join(x['name'] for x in a.ranges)
        if isinstance(a, np.ndarray) and a.size == 1:
            a = a.ravel()[0]
        if isinstance(a, np.ndarray):
            return 'A' + str([[int(x) if isinstance(x, float) and x == int(x) else x for x in row] for row in a.tolist()]).replace(' ', '')
        if isinstance(a, (int, float)) and not isinstance(a, bool):
            return ('%r' % float(a)).rstrip('0').rstrip('.') if float(a) != int(a) else str(int(a))
        return repr(a)
    return '|'.join(r(a) for a in args) if args else 'NOARGS'


def install_probe():
    import formulas
    formulas.get_functions()['VPROBE'] = _probe


def run_call(case):
    _, combo, sp, nested = case[:4]
    install_probe()
    atoms = dict(ARG_ATOMS)
    inner = sp if len(case) > 4 else ''          # white space also right after the opening and before the closing parenthesis
    text = 'vprobe(%s%s%s)' % (inner, (',' + sp).join(atoms[k] for k in combo), inner if combo and combo[-1] != 'empty' else '')
    exp_expr = 'VPROBE(%s)' % ', '.join(ARG_EXPR[k][0] for k in combo)
    # an empty argument reaches the function as Excel's "missing" value 0; a call
    # with no argument at all has no argument
    recv = [ARG_EXPR[k][1] for k in combo]
    if combo == ['empty']:
        # F() and F(<empty>) are the same text: zero arguments
        exp_expr, recv = 'VPROBE()', []
    exp_val = '|'.join('0' if r == 'EMPTY' else r for r in recv) if recv else 'NOARGS'
    if nested:
        text = 'IF(TRUE,%s,"no")' % text
        exp_expr = 'IF(TRUE, %s, "no")' % exp_expr
    st, b = parse('=' + text)
    fails, oc = [], []
    if st != 'ok':
        return result(1, ['rejected'], [Fail('rejected-valid', got=st, exp=exp_expr, text=text, part='call')])
    got = b[-1].get_expr
    if got != exp_expr:
        fails.append(Fail('export', got=got, exp=exp_expr, text=text, part='call', signrun=False))
    from xl.evalcell import exc_name
    try:
        func = b.compile()
        from formulas.ranges import Ranges
        args = [Ranges().push(k, [[1]]) for k in func.inputs]
        import numpy as np
        v = np.asarray(func(*args), object).ravel()[0]
    except Exception as e:
        v = 'exc:' + exc_name(e)
    if v != exp_val:
        fails.append(Fail('call-args', got=v, exp=exp_val, text=text, part='call', signrun=False))
    oc.append('call:%d:%s' % (len(combo), 'ok' if not fails else 'bad'))
    return result(2, oc, fails)


ELEMS = [('1', N(1)), ('-2', N(-2)), ('"a,b;c"', T('a,b;c')), ('TRUE', B(True)), ('#N/A', NA), ('0.5', N(0.5)), ('"}"', T('}')), ('","', T(',')), ('";"', T(';'))]


def array_cases(tier):
    mx = 2 if tier == 'quick' else 3
    ne = len(ELEMS)
    for r in range(1, mx + 1):
        for c in range(1, mx + 1):
            cells = r * c
            if cells <= 2:
                combos = itertools.product(range(ne), repeat=cells)
            else:
                # default element 0 with <= 2 deviations (deviation-bounded product)
                combos = set()
                base = [0] * cells
                for pos in itertools.combinations(range(cells), 2):
                    for vals in itertools.product(range(ne), repeat=2):
                        b = list(base)
                        b[pos[0]], b[pos[1]] = vals
                        combos.add(tuple(b))
                combos = sorted(combos)
            for combo in combos:
                for sp in ('', ' '):
                    yield ['array', r, c, list(combo), sp]


def run_array(case):
    _, r, c, combo, sp = case
    rows = [[ELEMS[combo[i * c + j]] for j in range(c)] for i in range(r)]
    text = '{%s}' % (';' + sp).join((',' + sp).join(e[0] for e in row) for row in rows)

    def ex(e):
        s = e[0]
        return s
    exp_expr = 'ARRAY(%s)' % ', '.join('ARRAY(%s)' % ', '.join(ex(e) for e in row) for row in rows)
    st, b = parse('=' + text)
    if st != 'ok':
        return result(1, ['rejected'], [Fail('rejected-valid', got=st, exp=exp_expr, text=text, part='array')])
    fails = []
    got = b[-1].get_expr
    if got != exp_expr:
        fails.append(Fail('export', got=got, exp=exp_expr, text=text, part='array', signrun=False))
    from xl.evalcell import classify_array, exc_name
    try:
        v = classify_array(b.compile()())
    except Exception as e:
        v = 'exc:' + exc_name(e)
    expv = [[e[1] for e in row] for row in rows]
    if v != expv:
        fails.append(Fail('array-value', got=v, exp=expv, text=text, part='array', signrun=False))
    return result(2, ['array:%dx%d:%s' % (r, c, 'ok' if not fails else 'bad')], fails)


# letter case of logicals, function names and references
def case_cases(tier):
    for t in ['TRUE', 'true', 'True', 'FALSE', 'false']:
        for u in ['', '-', 'NOT(%s)', 'IF(%s,1,2)', '{%s,1}', '1+%s', '%s&"x"']:
            yield ['case', 'lit', t, u]
    for f in ['SUM(1,2)', 'sum(1,2)', 'Sum(1,2)', 'sUm( 1 , 2 )']:
        yield ['case', 'fn', f, '']
    for f in ['B1+c1', 'b1+C1', '$b$1+c$1', 'B1 + C1']:
        yield ['case', 'ref', f, '']
    for t in ['#N/A', '#n/a', '#Ref!', '#div/0!', '#Value!', '#NUM!', '#name?', '#null!']:
        for u in ['', '-', 'NOT(%s)', 'IFERROR(%s,1)', '{1,%s}', '1+%s']:
            yield ['case', 'err', t, u]


def run_casevar(case):
    _, kind, t, u = case
    text = (u % t) if '%s' in u else u + t
    st, b = parse('=' + text)
    if st != 'ok':
        return result(1, ['rejected'], [Fail('rejected-valid', got=st, exp='accepted', text=text, part='case')])
    got = b[-1].get_expr
    canon = {'lit': (u % t.upper()) if '%s' in u else u + t.upper(), 'fn': 'SUM(1, 2)', 'ref': '(B1 + C1)', 'err': None}[kind]
    fails = []
    if kind in ('err', 'lit'):
        # the same text with the literal in upper case is the reference: same export, same value
        st2, b2 = parse('=' + ((u % t.upper()) if '%s' in u else u + t.upper()))
        if st2 != 'ok' or (b2[-1].get_expr != got if kind == 'err' else b2[-1].get_expr.upper() != got.upper()):      # (a logical constant is exported as typed)
            fails.append(Fail('export', got=got, exp=b2[-1].get_expr if st2 == 'ok' else st2, text=text, part='case', signrun=False))
        else:
            v1, v2 = value_of(b), value_of(b2)
            if v1 != v2 or (v1[0] == 'BAD' and not v1[1].startswith('shape')):
                fails.append(Fail('value', got=v1, exp=[str(v2)], text=text, spelling='case', signrun=False))
    elif got.upper() != canon.upper():
        fails.append(Fail('export', got=got, exp=canon, text=text, part='case', signrun=False))
    return result(1, ['case:' + kind], fails)


def run_case(case):
    k = case[0]
    return {'nest': run_nest, 'call': run_call, 'array': run_array, 'case': run_casevar}[k](case)


def run(ctx):
    ctx.explore(run_case, nest_cases(ctx.tier), chunksize=64, label='operator_nests')
    ctx.explore(run_case, call_cases(ctx.tier), chunksize=64, label='calls')
    ctx.explore(run_case, array_cases(ctx.tier), chunksize=64, label='array_literals')
    ctx.explore(run_case, case_cases(ctx.tier), chunksize=8, label='letter_case')
    return {}
