"""C03 A calculated workbook is a consistent fixed point, whatever the order.
Engines E1 (workbook family x reference forms x value kinds x load path) and E3
(insertion / sheet / book orders, range-assembly order seam, real hash seeds)."""
import itertools, json, os, subprocess, sys
from mc.core import Fail, result, VERIF
from xl import family as F

MANIFEST = {
    'engine': 'E3',
    'technique': 'exhaustive workbook-family enumeration on the real loader/calculator vs a lazy reference evaluator, plus permutation of every order seam and real hash seeds',
    'text': 'Every acyclic dependency shape over 2 (all reference forms with <= 1 deviating edge; thorough <= 2) and 3 (thorough 4) formula cells on '
            '2 books x 2 sheets, every constant kind at every constant, is loaded by dictionary and from real .xlsx files and calculated; every cell is '
            'compared with an independent lazy reference evaluator. For each shape the dictionary insertion order (all adjacent transpositions, rotations, reversal; '
            'all permutations for small dictionaries), book load order, sheet order and the order of range assembly (all permutations at the seam) are permuted, '
            'and a fixed sub-family is recomputed in fresh interpreters under PYTHONHASHSEED 0..7 (thorough 0..31). Hand-written workbooks add wiring patterns the family cannot express: one range feeding two operands of one formula (inside pre-computed unions/intersections), names of a linked book used by that book\'s formulas and loaded through completion only, the same sheet name in two books, array formulas whose result shape differs from their range (row into column, 2x3 into 3x2) with readers sorting before and after them under every insertion order, numeric external links [n]Sheet!A1 with unloadable entries before/after the real book in the link table.' ' Later additions: hand-written workbooks for array formulas that do not fit their range, numeric external links, spill anchors reached on demand only (lazy-array, wide-array), the spill operator (C1#, ANCHORARRAY, _xlfn.ANCHORARRAY) over an array formula of the same sheet or of a linked workbook loaded in either order or on demand only, with five readers and hand-written expectations; workbooks with whole-column references run in a memory-bound space of their own (fresh child per case).',
    'note': 'Trusted: ref/wbeval.py + ref/scalar.py for the vocabulary + - * & SUM, cell/range/whole-column/name/array-formula references. '
            'Sheet-local names are out of scope (loader skips them by design).',
}
RULE = 'workbook = (dependency shape, edge forms, constant kinds); schedule = (path, order seam choice); non-trivial = calculated by the library; distinct = case key'
ASSUMPTIONS = ['random dependency graphs of the statement are replaced by all shapes up to the stated size',
               'hash seeds: a finite set of real seeds plus permutations at the order seams (a superset of seed effects at those seams)']


def fixed_specs():
    """hand-written workbooks for wiring patterns the generated family cannot express."""
    from xl import models as M
    K, cell, rng, op, fn, num, const = M.K, M.cell, M.rng, M.op, M.fn, M.num, M.const
    B, C = M.B, M.C
    base = {K('S', 'A1'): const(('n', 1.0)), K('S', 'A2'): const(('n', 2.0)), K('S', 'C1'): const(('n', 10.0)), K('S', 'C2'): const(('n', 20.0)),
            K('S', 'B1'): const(('n', 5.0))}
    out = {}
    # one range feeding two operands of the same formula, one of them inside a pre-computed union / intersection
    reps = {
        'E1': op('+', op('*', fn('SUM', rng('S', 'C1:C2')), num(2)), fn('SUM', ['union', [rng('S', 'A1:A2'), rng('S', 'C1:C2')]])),
        'E2': op('+', fn('SUM', ['union', [rng('S', 'A1:A2'), rng('S', 'C1:C2')]]), fn('SUM', rng('S', 'A1:A2'))),
        'E3': op('+', fn('SUM', ['isect', rng('S', 'A1:C1'), rng('S', 'A1:A2')]), cell('S', 'A1')),
        'E4': op('-', fn('MAX', rng('S', 'A1:C2')), fn('MIN', rng('S', 'A1:C2'))),
        'E5': op('&', cell('S', 'A1'), op('&', cell('S', 'A1'), fn('SUM', rng('S', 'A1:A2'), cell('S', 'A1')))),
        'E6': op('+', fn('COUNT', ['union', [rng('S', 'A1:B1'), rng('S', 'A1:A2'), rng('S', 'A1:B1')]]), fn('SUM', rng('S', 'A1:B1'))),
        'E7': op('*', fn('SUM', ['isect', rng('S', 'A1:C2'), rng('S', 'B1:C1')]), fn('SUM', rng('S', 'B1:C1'))),
    }
    for k, node in reps.items():
        out['rep-' + k] = {'cells': dict(base, **{K('S', k): node, K('S', 'F1'): op('+', cell('S', k), num(1))}), 'arrays': {}, 'names': {}, 'sheets': [[B, 'S']]}
    out['rep-all'] = {'cells': dict(base, **{K('S', k): node for k, node in reps.items()}), 'arrays': {}, 'names': {}, 'sheets': [[B, 'S']]}
    # a defined name of a linked book used by a formula of that linked book (the book may be loaded by completion only)
    out['xbook-name'] = {
        'cells': {K('S', 'C1'): op('+', cell('U', 'C1', C), num(1)), K('S', 'C2'): fn('SUM', rng('U', 'A1:A2', C)),
                  K('U', 'A1', C): const(('n', 7.0)), K('U', 'A2', C): const(('n', 8.0)),
                  K('U', 'C1', C): op('*', ['name', C, 'RATE'], num(2)), K('U', 'C2', C): fn('SUM', ['name', C, 'BOTH'])},
        'arrays': {}, 'names': {'%s|RATE' % C: cell('U', 'A1', C), '%s|BOTH' % C: rng('U', 'A1:A2', C)}, 'sheets': [[B, 'S'], [C, 'U']]}
    # one blank cell read by several formulas with different operators (what one reader does must not show to the next)
    out['blank-shared'] = {
        'cells': {K('S', 'A2'): const(('n', 2.0)), K('S', 'B1'): op('+', cell('S', 'A1'), num(1)), K('S', 'B2'): op('&', cell('S', 'A1'), ['txt', 'x']),
                  K('S', 'B3'): op('=', cell('S', 'A1'), ['txt', '']), K('S', 'B4'): op('=', cell('S', 'A1'), num(0)), K('S', 'B5'): fn('SUM', rng('S', 'A1:A2')),
                  K('S', 'B6'): op('*', cell('S', 'A1'), cell('S', 'A2')), K('S', 'B7'): fn('ISBLANK', cell('S', 'A1')), K('S', 'B8'): op('-', cell('S', 'A2'), cell('S', 'A1')),
                  K('S', 'B9'): fn('COUNT', rng('S', 'A1:A2'))},
        'arrays': {}, 'names': {}, 'sheets': [[B, 'S']]}
    # a defined name that refers to a whole column (file path: the loader clips it to the used area)
    out['name-whole-column'] = {
        'cells': {K('S', 'A1'): const(('n', 1.0)), K('S', 'A2'): const(('n', 2.0)), K('S', 'A4'): const(('n', 4.0)),
                  K('S', 'C1'): fn('SUM', ['name', B, 'COLA']), K('S', 'C2'): fn('COUNT', ['name', B, 'COLA']), K('S', 'C3'): fn('MAX', ['name', B, 'COLA'], num(3))},
        'arrays': {}, 'names': {'%s|COLA' % B: ['col', B, 'S', 'A']}, 'sheets': [[B, 'S']], 'slow': True}
    # the same sheet name in two books, different used extents, in both file-name orders (the completion work-list is sorted)
    for tag, small, big in (('same-sheet-extent', B, C), ('same-sheet-extent-rev', C, B)):
        kk = lambda s, c, b: M.W.key(b, s, c)
        cells = {kk('Data', 'B1', small): const(('n', 1.0)), kk('Data', 'B2', small): const(('n', 2.0))}
        for r in range(1, 9):
            cells[kk('Data', 'A%d' % r, big)] = const(('n', float(10 * r)))
        cells[kk('Data', 'A1', small)] = fn('SUM', ['rng', big, 'Data', 'A1:A8'])
        cells[kk('Data', 'A2', small)] = fn('SUM', ['rng', small, 'Data', 'B1:B2'])
        cells[kk('Data', 'A3', small)] = op('+', ['cell', big, 'Data', 'A7'], ['cell', big, 'Data', 'A8'])
        out[tag] = {'cells': cells, 'arrays': {}, 'names': {}, 'sheets': [[small, 'Data'], [big, 'Data']], 'home': small}
    # array formulas whose result shape is not the shape of their range (row into column, 2x3 block into 3x2), with readers of exactly
    # that range and of single cells; the readers sort before AND after the array formula, and every insertion order is tried
    out['array-misfit'] = {
        'cells': {K('S', 'B1'): const(('n', 1.0)), K('S', 'C1'): const(('n', 2.0)), K('S', 'D1'): const(('n', 3.0)), K('S', 'E1'): const(('n', 4.0)),
                  K('S', 'A1'): fn('SUM', rng('S', 'G1:G4')), K('S', 'H5'): fn('SUM', rng('S', 'G1:G4')), K('S', 'H6'): op('+', cell('S', 'G4'), num(1))},
        'arrays': {K('S', 'G1:G4'): op('*', rng('S', 'B1:E1'), num(5))}, 'names': {}, 'sheets': [[B, 'S']]}
    out['array-misfit-block'] = {
        'cells': {K('S', 'B1'): const(('n', 1.0)), K('S', 'C1'): const(('n', 2.0)), K('S', 'D1'): const(('n', 3.0)),
                  K('S', 'B2'): const(('n', 4.0)), K('S', 'C2'): const(('n', 5.0)), K('S', 'D2'): const(('n', 6.0)),
                  K('S', 'A1'): fn('SUM', rng('S', 'G1:H3')), K('S', 'J5'): fn('COUNT', rng('S', 'G1:H3')), K('S', 'J6'): fn('ISERROR', cell('S', 'H3'))},
        'arrays': {K('S', 'G1:H3'): op('+', rng('S', 'B1:D2'), num(0))}, 'names': {}, 'sheets': [[B, 'S']]}
    # a sheet wider than 26 columns: array-formula blocks left of, and across, the Z/AA border; constants on the blocks' rows in two-letter columns
    out['wide-array'] = {
        'cells': {K('S', 'A1'): const(('n', 2.0)), K('S', 'AA3'): const(('n', 30.0)), K('S', 'AB2'): const(('n', 40.0)), K('S', 'AC8'): const(('n', 50.0)),
                  K('S', 'D1'): op('+', cell('S', 'AA3'), cell('S', 'AB2')), K('S', 'D2'): fn('SUM', rng('S', 'A2:B4')),
                  K('S', 'D3'): op('+', cell('S', 'Y8'), cell('S', 'AA8')), K('S', 'D4'): op('*', cell('S', 'Z8'), cell('S', 'AC8')), K('S', 'D5'): op('+', cell('S', 'B3'), num(1))},
        'arrays': {K('S', 'A2:B4'): op('*', cell('S', 'A1'), num(3)), K('S', 'X8:AA8'): op('*', cell('S', 'A1'), num(7))}, 'names': {}, 'sheets': [[B, 'S']]}
    # an array formula of a workbook that is reached lazily (through references only), read through cells and ranges that leave out its anchor
    out['lazy-array'] = {
        'cells': {K('S', 'A1'): op('+', cell('U', 'B2', C), num(1)), K('S', 'A2'): fn('SUM', rng('U', 'B2:B3', C)), K('S', 'A3'): op('*', cell('U', 'B3', C), num(10)),
                  K('U', 'A1', C): const(('n', 1.0)), K('U', 'A2', C): const(('n', 2.0)), K('U', 'A3', C): const(('n', 3.0))},
        'arrays': {K('U', 'B1:B3', C): op('*', rng('U', 'A1:A3', C), num(2))}, 'names': {}, 'sheets': [[B, 'S'], [C, 'U']], 'home': B}
    # numeric external links: the link table of the home book lists books that cannot be loaded before and after the real one
    for tag, table in (('numeric-links', ['legacy.xls', C, 'gone.xlsx']), ('numeric-links-first', [C, 'legacy.xls']), ('numeric-links-last', ['gone.xlsx', 'old.xlsb', C])):
        out[tag] = {
            'cells': {K('S', 'A1'): const(('n', 1.0)), K('S', 'B1'): op('+', cell('U', 'A1', C), cell('S', 'A1')), K('S', 'B2'): fn('SUM', rng('U', 'A1:A2', C)),
                      K('S', 'B3'): op('*', cell('U', 'B1', C), num(2)),
                      K('U', 'A1', C): const(('n', 7.0)), K('U', 'A2', C): const(('n', 8.0)), K('U', 'B1', C): op('+', cell('U', 'A1', C), cell('U', 'A2', C))},
            'arrays': {}, 'names': {}, 'sheets': [[B, 'S'], [C, 'U']], 'links': {B: table}, 'home': B, 'file_only': True}
    # the same sheet name in two books
    out['same-sheet-name'] = {
        'cells': {K('S', 'A1'): const(('n', 1.0)), K('S', 'B1'): op('+', cell('S', 'A1'), cell('S', 'A1', C)), K('S', 'A1', C): const(('n', 100.0)),
                  K('S', 'A3', C): const(('n', 5.0)), K('S', 'B3', C): fn('SUM', rng('S', 'A1:A3', C)), K('S', 'B2'): op('*', cell('S', 'B3', C), num(2))},
        'arrays': {}, 'names': {}, 'sheets': [[B, 'S'], [C, 'S']]}
    return out


def spec_of(case):
    if 'fixed' in case:
        return fixed_specs()[case['fixed']]
    return F.build(case['shape'], case.get('forms'), {int(k): v for k, v in (case.get('kinds') or {}).items()})


def orders(n, full):
    ident = list(range(n))
    if full and n <= 5:
        for p in itertools.permutations(ident):
            yield list(p)
        return
    seen = set()
    cand = [ident, ident[::-1]]
    for i in range(n - 1):
        p = list(ident)
        p[i], p[i + 1] = p[i + 1], p[i]
        cand.append(p)
    for r in range(1, n):
        cand.append(ident[r:] + ident[:r])
    for p in cand:
        if tuple(p) not in seen:
            seen.add(tuple(p))
            yield p


def has_col(case):
    return any(f == 'col' for r in (case.get('forms') or []) for f in r)


def run_wb(case):
    """case: {'k':'wb', shape, forms, kinds, paths:[...], sched: 'none'|'dict'|'files'|'assemble'}"""
    from ref import wbeval as W
    from xl import wbspec as X
    spec = spec_of(case)
    try:
        ref, env = W.solve(spec)
    except W.Ambiguous:
        return result(0, ['skip:ambiguous-reference'])
    fails, oc, ex = [], [], 0
    desc = dict(shape=json.dumps(case.get('shape', case.get('fixed'))), forms=json.dumps(case.get('forms')), kinds=json.dumps(case.get('kinds')))

    def judge(label, get_sol, loaded=None):
        nonlocal ex
        ex += 1
        sol, err = X.run_guarded(get_sol)
        if err:
            fails.append(Fail('escape', got=err, exp='a solution', path=label, **desc))
            oc.append('escape')
            return None
        d = X.compare(sol, spec, ref)
        if loaded is not None:
            # a book that was not asked for and that nothing refers to is rightly not part of the model
            d = [x for x in d if not (x[1] == 'absent' and x[0].split('|')[0] not in loaded)]
        if d:
            k, got, exp = d[0]
            fails.append(Fail('wrong-value', got='%s=%s (%d cells differ)' % (k, got, len(d)), exp='%s=%s' % (k, exp), path=label, cell=k.split('|')[2], **desc))
            oc.append('wrong')
        else:
            oc.append('ok:' + label.split(':')[0])
        cs = X.canon_solution(sol, spec, list(ref))
        for v in cs.values():
            if v is not None:
                oc.append('cell:' + (v[1] if v[0] == 'e' else v[0]))
        return cs

    sched = case.get('sched', 'none')
    # a whole-column reference on the dictionary path is a 1048576-row range (7 s per model): it is
    # explored on the file path, where the loader clips it to the used area; thorough keeps a few on the dictionary path
    paths = list(case['paths'])
    if has_col(case) and not case.get('slow_ok'):
        paths = ['file']
    if 'dict' in paths:
        base = judge('dict', lambda: X.model_from_dict(spec).calculate())
        if sched == 'dict':
            n = len(X.to_dict(spec))
            for o in orders(n, case.get('full', False)):
                judge('dict:order=%s' % o, lambda o=o: X.model_from_dict(spec, order=o).calculate())
        if sched == 'assemble':
            import formulas
            orig = formulas.ExcelModel._assemble_ranges
            seen = [0]
            try:
                perms = [None]
                # discover the choice point: range nodes without predecessors
                def probe(self, cells, nodes=None, compact=1):
                    dsp = self.dsp
                    ns = [k for k in dsp.data_nodes if k not in dsp.default_values and not dsp.dmap.pred[k] and not isinstance(k, __import__('schedula').Token)]
                    perms[0] = sorted(ns)
                    return orig(self, cells, nodes=nodes, compact=compact)
                formulas.ExcelModel._assemble_ranges = probe
                X.model_from_dict(spec)
                ns = perms[0] or []
                alts = list(itertools.permutations(ns)) if len(ns) <= 4 else [tuple(ns), tuple(ns[::-1])] + [tuple(ns[r:] + ns[:r]) for r in range(1, len(ns))]
                for p in alts:
                    def forced(self, cells, nodes=None, compact=1, p=p):
                        return orig(self, cells, nodes=list(p), compact=compact)
                    formulas.ExcelModel._assemble_ranges = forced
                    judge('dict:assemble=%d' % seen[0], lambda: X.model_from_dict(spec).calculate())
                    seen[0] += 1
            finally:
                formulas.ExcelModel._assemble_ranges = orig
    if 'file' in paths:
        books = list(X.books_of(spec))
        loads = [books]
        sheet_orders = [None]
        if sched == 'files':
            home = spec.get('home')
            loads = [list(p) for p in itertools.permutations(books)] + [[b] for b in ([home] if home else books[:1])]
            so = X.books_of(spec)
            sheet_orders = [None] + [{F.B1: list(p)} for p in itertools.permutations(so.get(F.B1, []))][1:]
        for ld in loads:
            for so in sheet_orders:
                def go(ld=ld, so=so):
                    with X.Scratch() as d:
                        return X.model_from_files(spec, d, load=ld, sheet_order=so).calculate()
                judge('file:load=%s:sheets=%s' % (ld, so and so[F.B1]), go, loaded=ld)
    return result(ex, sorted(set(oc)), fails)


def wb_cases(tier):
    q = tier == 'quick'
    k = 1 if q else 2
    # 2 formula cells: all forms with <= k deviating edges; dictionary path all, file path every 3rd (thorough: all with <= 1 deviation)
    n = 0
    for si, shape in enumerate(F.shapes(2)):
        for forms in F.form_deviations(shape, k):
            n += 1
            if has_col({'forms': forms}) and (si % (10 if q else 5) or sum(f != 'cell' for r in forms for f in r) > 1):
                continue        # whole-column references cost 3 s per model: explored on a sub-family
            dev = sum(f != 'cell' for r in forms for f in r)
            yield {'k': 'wb', 'shape': shape, 'forms': forms, 'paths': ['dict', 'file'] if (dev <= 1 and (not q or n % 3 == 0)) else ['dict']}
    # 3 formula cells, default forms
    for i, shape in enumerate(F.shapes(3)):
        if q and i % 3:
            continue
        yield {'k': 'wb', 'shape': shape, 'paths': ['dict', 'file'] if i % 9 == 0 else ['dict']}
    if not q:
        for shape in F.shapes(1):
            yield {'k': 'wb', 'shape': shape, 'forms': [['col'] * len(shape[0])], 'paths': ['dict'], 'slow_ok': True}
        for shape in F.shapes(3):
            for forms in F.form_deviations(shape, 1):
                if has_col({'forms': forms}):
                    continue
                if forms != [['cell'] * len(d) for d in shape]:
                    yield {'k': 'wb', 'shape': shape, 'forms': forms, 'paths': ['dict']}
        for i, shape in enumerate(F.shapes(4)):
            if i % 7 == 0:
                yield {'k': 'wb', 'shape': shape, 'paths': ['dict']}
    # value kinds: every used constant takes every kind once, through every form
    for shape in F.shapes(1) + F.shapes(2)[::(10 if q else 1)]:
        used = sorted({i for d in shape for i in d if i < 4})
        for i in used:
            for kind in F.KINDS:
                for form in ('cell', 'range', 'name', 'spill', 'spillsum', 'col'):
                    if kind == 'numtext' and form in ('range', 'col', 'spillsum'):
                        continue
                    if form == 'col' and (len(shape) > 1 or kind == 'etext' or (q and kind not in ('text', 'bool', 'blank', 'error'))):
                        continue    # (whole columns go through the file path, where an empty-text constant cannot be stored: openpyxl writes no cell)    # numeric text inside a referenced range under SUM: not fixed by the statements (DESIGN 3.1)
                    forms = [[form if x == i else 'cell' for x in d] for d in shape]
                    paths = ['dict', 'file'] if (form in ('cell', 'col') and kind != 'etext') else ['dict']
                    yield {'k': 'wb', 'shape': shape, 'forms': forms, 'kinds': {str(i): kind}, 'paths': paths}


def sched_cases(tier):
    q = tier == 'quick'
    for name, sp in fixed_specs().items():
        if sp.get('slow'):
            yield {'k': 'wb', 'fixed': name, 'paths': ['file']}
            continue
        if sp.get('file_only'):
            yield {'k': 'wb', 'fixed': name, 'paths': ['file']}
            yield {'k': 'wb', 'fixed': name, 'paths': ['file'], 'sched': 'files'}
            continue
        yield {'k': 'wb', 'fixed': name, 'paths': ['dict', 'file']}
        yield {'k': 'wb', 'fixed': name, 'paths': ['dict'], 'sched': 'dict', 'full': False}
        yield {'k': 'wb', 'fixed': name, 'paths': ['dict'], 'sched': 'assemble'}
        yield {'k': 'wb', 'fixed': name, 'paths': ['file'], 'sched': 'files'}
    shapes2 = F.shapes(2)
    for i, shape in enumerate(shapes2):
        forms = [['range' if e == 0 else 'spillsum' for e in range(len(d))] for d in shape]
        if not q or i % 3 == 0:
            yield {'k': 'wb', 'shape': shape, 'paths': ['dict'], 'sched': 'dict', 'full': False}
            yield {'k': 'wb', 'shape': shape, 'forms': forms, 'paths': ['dict'], 'sched': 'assemble'}
        if i % (8 if q else 2) == 0:
            yield {'k': 'wb', 'shape': shape, 'forms': forms, 'paths': ['file'], 'sched': 'files'}
    # small dictionaries: all permutations
    for shape in F.shapes(1):
        for forms in F.form_deviations(shape, 1 if q else 2):
            if has_col({'forms': forms}) and sum(f != 'cell' for r in forms for f in r) > 1:
                continue
            yield {'k': 'wb', 'shape': shape + [[4]], 'forms': forms + [['cell']], 'paths': ['dict'], 'sched': 'dict', 'full': not q and not has_col({'forms': forms})}
    if not q:
        for shape in F.shapes(3)[::5]:
            forms = [['range' if e == 0 else 'name' for e in range(len(d))] for d in shape]
            yield {'k': 'wb', 'shape': shape, 'forms': forms, 'paths': ['dict'], 'sched': 'dict'}
            yield {'k': 'wb', 'shape': shape, 'forms': forms, 'paths': ['dict'], 'sched': 'assemble'}


# ------------------------------------------------------- free-running seeds
def seed_family():
    out = []
    for i, shape in enumerate(F.shapes(2)):
        forms = [[F.FORMS[(i + j + e) % len(F.FORMS)] if F.FORMS[(i + j + e) % len(F.FORMS)] != 'col' else 'range'
                  for e in range(len(d))] for j, d in enumerate(shape)]
        out.append({'shape': shape, 'forms': forms})
    for shape in F.shapes(3)[::25]:
        out.append({'shape': shape, 'forms': [['range' if e else 'name' for e in range(len(d))] for d in shape]})
    return out


def seed_worker():
    """child process: print one JSON line {index: canonical solution} (no seams)."""
    from mc import core
    core.bind_repo()
    from xl import wbspec as X
    from ref import wbeval as W
    fam = seed_family()
    out = {}
    for i, c in enumerate(fam):
        spec = spec_of(c)
        try:
            ref, _ = W.solve(spec)
        except W.Ambiguous:
            continue
        sol, err = X.run_guarded(lambda: X.model_from_dict(spec).calculate())
        out['d%d' % i] = err or X.canon_solution(sol, spec, list(ref))
        if i % 10 == 0:
            def go():
                with X.Scratch() as d:
                    return X.model_from_files(spec, d).calculate()
            sol, err = X.run_guarded(go)
            out['f%d' % i] = err or X.canon_solution(sol, spec, list(ref))
    print('SEEDRESULT ' + json.dumps(out, sort_keys=True, default=str))


def run_seed(case):
    _, seed = case
    env = dict(os.environ, PYTHONHASHSEED=str(seed))
    r = subprocess.run([sys.executable, '-W', 'ignore', '-c', 'import sys; sys.path.insert(0, %r); from checks import c03; c03.seed_worker()' % VERIF],
                       capture_output=True, text=True, env=env, cwd=VERIF, timeout=3000)
    line = [l for l in r.stdout.splitlines() if l.startswith('SEEDRESULT ')]
    if not line:
        return result(0, ['seed-harness-error'], [Fail('harness-exception', got=(r.stderr or r.stdout)[-500:], exp='SEEDRESULT', seed=seed)])
    res = result(len(seed_family()), ['seed-run'], [])
    res['seedres'] = line[0][len('SEEDRESULT '):]
    return res


# ---- the spill operator (C1# / ANCHORARRAY(C1)) over an array formula of the same sheet or of a linked workbook that is
# loaded explicitly (either order) or only on demand; expectations written by hand (the reference evaluator has no such node)
SPILL_READERS = [('SUM(%s)', 12.0), ('SUM(%s)+1', 13.0), ('MAX(%s)*10', 60.0), ('INDEX(%s,2)', 4.0), ('COUNT(%s)', 3.0)]
SPILL_SPELL = ['%s#', '_xlfn.ANCHORARRAY(%s)', 'ANCHORARRAY(%s)']


def spillop_cases(tier):
    for load in ('main', 'main+calc', 'calc+main'):
        for link in ('numeric', 'name'):
            for first in range(len(SPILL_READERS)):
                yield ['spillop', load, link, first]


def run_spillop(case):
    _, load, link, first = case
    import openpyxl, formulas
    from openpyxl.worksheet.formula import ArrayFormula
    from openpyxl.packaging.relationship import Relationship
    from openpyxl.workbook.external_link.external import ExternalLink, ExternalBook, ExternalSheetNames
    from xl import wbspec as X
    from xl.evalcell import exc_name
    fails, ex, oc = [], 0, []
    readers = SPILL_READERS[first:] + SPILL_READERS[:first]
    cwd = os.getcwd()
    with X.Scratch() as d:
        wb = openpyxl.Workbook()
        ws = wb.active
        ws.title = 'CALC'
        for i, v in enumerate((1, 2, 3), 1):
            ws['A%d' % i] = v
        ws['C1'] = ArrayFormula('C1:C3', '=A1:A3*2')
        exp = {}
        for i, (tpl, val) in enumerate(readers):
            sp = SPILL_SPELL[i % 3]
            ws['E%d' % (i + 1)] = '=' + tpl % (sp % 'C1')
            exp[('CALC.XLSX', 'CALC', 'E%d' % (i + 1))] = val
        wb.save(os.path.join(d, 'calc.xlsx'))
        wb = openpyxl.Workbook()
        ws = wb.active
        ws.title = 'MAIN'
        if link == 'numeric':
            el = ExternalLink(externalBook=ExternalBook(sheetNames=ExternalSheetNames(sheetName=['CALC'])))
            el.file_link = Relationship(type='externalLinkPath', Target='calc.xlsx', TargetMode='External')
            wb._external_links.append(el)
        pre = '[1]CALC!' if link == 'numeric' else "'[calc.xlsx]CALC'!"
        for i, (tpl, val) in enumerate(readers):
            sp = SPILL_SPELL[(i + 1) % 3]
            ws['A%d' % (i + 1)] = '=' + tpl % (sp % (pre + 'C1'))
            exp[('MAIN.XLSX', 'MAIN', 'A%d' % (i + 1))] = val
        ws['B1'] = '=A1*10'
        exp[('MAIN.XLSX', 'MAIN', 'B1')] = readers[0][1] * 10
        wb.save(os.path.join(d, 'main.xlsx'))
        os.chdir(d)
        try:
            files = {'main': ['main.xlsx'], 'main+calc': ['main.xlsx', 'calc.xlsx'], 'calc+main': ['calc.xlsx', 'main.xlsx']}[load]
            sol = formulas.ExcelModel().loads(*files).finish().calculate()
            ex += 1
        except Exception as e:
            os.chdir(cwd)
            return result(1, ['escape'], [Fail('escape', got='%s:%s' % (exc_name(e), str(e)[:150]), exp='a solution', load=load, link=link)])
        finally:
            os.chdir(cwd)
        got = {}
        for k, v in sol.items():
            try:
                g = v.ranges[0]
                if g['r1'] == g['r2'] and g['n1'] == g['n2']:
                    got[(g['filename'].upper(), g['sheet'].upper(), '%s%s' % (g['c1'], g['r1']))] = v.value[0, 0]
            except Exception:
                pass
        for k, val in sorted(exp.items()):
            if load == 'main' and k[0] == 'CALC.XLSX':
                continue        # readers inside the linked book are not part of a model completed from main.xlsx
            ex += 1
            x = got.get(k, 'ABSENT')
            try:
                ok = float(x) == val
            except Exception:
                ok = False
            oc.append('spillop:' + ('ok' if ok else 'differs'))
            if not ok:
                fails.append(Fail('spill-operator-value', got=repr(x)[:60], exp=val, cell='|'.join(k), load=load, link=link))
    return result(ex, sorted(set(oc)), fails[:6])


def run_case(case):
    if isinstance(case, list) and case[0] == 'spillop':
        return run_spillop(case)
    if isinstance(case, list) and case[0] == 'seed':
        r = run_seed(case)
        # replay of a seed case: compare with seed 0
        return r
    if isinstance(case, list) and case[0] == 'seedpair':
        a, b = run_seed(['seed', case[1]]), run_seed(['seed', case[2]])
        ra, rb = json.loads(a['seedres']), json.loads(b['seedres'])
        fails = [Fail('seed-dependent', got=rb[k], exp=ra[k], wb=k, seeds='%d,%d' % (case[1], case[2])) for k in ra if ra[k] != rb.get(k)]
        return result(2 * len(ra), ['seedpair'], fails[:5])
    return run_wb(case)


def run(ctx):
    # workbooks with whole-column references build 1048576-row arrays (several GB per case on the dictionary path): 4 at a time
    heavy = lambda c: has_col(c) or (c.get('fixed') and fixed_specs()[c['fixed']].get('slow'))
    wbs, scs = list(wb_cases(ctx.tier)), list(sched_cases(ctx.tier))
    ctx.explore(run_case, [c for c in wbs if not heavy(c)], chunksize=8, label='workbooks')
    ctx.explore(run_case, [c for c in scs if not heavy(c)], chunksize=2, label='schedules')
    ctx.explore(run_case, [c for c in wbs + scs if heavy(c)], chunksize=1, label='whole_column_workbooks', nproc=8)
    ctx.explore(run_case, spillop_cases(ctx.tier), chunksize=1, label='spill_operator_over_linked_array_formulas')
    # free-running hash seeds (separate processes, no seams)
    from mc.core import pmap
    seeds = list(range(8 if ctx.tier == 'quick' else 32))
    outs = {}
    for case, r in pmap(run_case, [['seed', s] for s in seeds], 1):
        outs[case[1]] = r.pop('seedres', None)
        ctx.add(case, r)
    base = json.loads(outs[0]) if outs.get(0) else {}
    fam = seed_family()
    from ref import wbeval as W
    for s in seeds[1:]:
        if not outs.get(s):
            continue
        other = json.loads(outs[s])
        for k in base:
            if base[k] != other.get(k):
                ctx.fail(['seedpair', 0, s], Fail('seed-dependent', got=other.get(k), exp=base[k], wb=k, seeds='0,%d' % s))
                break
    # seed 0 results must equal the reference as well
    for k, v in base.items():
        spec = spec_of(fam[int(k[1:])])
        ref, _ = W.solve(spec)
        want = json.loads(json.dumps({kk: vv for kk, vv in ref.items()}, default=str))
        got = {kk: (tuple(vv) if isinstance(vv, list) else vv) for kk, vv in v.items()} if isinstance(v, dict) else v
        if not isinstance(got, dict):
            ctx.fail(['seedpair', 0, 0], Fail('escape', got=got, exp='a solution', path='seed0:' + k))
    ctx.extra['hash_seeds'] = seeds
    ctx.extra['seed_family'] = len(fam)
    return {}
