"""C07 Recalculation with overrides is exact and leaves no trace.
Engine E2: explicit-state breadth-first search over operation histories on real
ExcelModel objects, state = deep canonical fingerprint of the model."""
import copy, json
from mc.core import Fail, result, pmap
from xl import models as M
from xl.wbspec import lib_id, name_id

MANIFEST = {
    'engine': 'E2',
    'technique': 'explicit-state BFS over operation histories on the real model (deep canonical state fingerprints), every transition checked against a fresh model and a reference evaluator',
    'text': 'For three fixed workbooks (range/name/array-formula chain with IF and IFERROR; two sheets with error handling; two books with a name) every history '
            'of up to 4 (thorough 8) operations from an alphabet of 14 (plain calculation; overrides of a constant with a number/text/error, of a formula cell, '
            'of a defined name, of a 2-cell range, of two nodes at once; restricted outputs; compile+call; to_dict; write; deepcopy-and-continue) is replayed on a freshly '
            'built model; states are deduplicated by a deep fingerprint of all reachable mutable state; on every transition the result must equal the same operation on a '
            'fresh model and the reference evaluation of the workbook with the overrides as constants. A fourth workbook holds a 2x3 block read as a whole and cell by cell and a sparse range with unpopulated cells; a fifth an array-formula block partly overlapped by an overridden range and overridden element by element.' ' Later additions: model e (array block beside readers), restricted outputs with overrides of unpopulated cells, a raw model with array constants holding empty text (judged against a fresh model), model c loaded from files in both load orders, a raw circular model with hand-written expectations; readers of a partly overridden array block are not judged.',
    'note': 'Trusted: ref/wbeval.py for the vocabulary used by the three models; the fingerprint is over-fine (extra states only). write()/to_dict() appear as preceding operations only.',
}
RULE = 'state = fingerprint of the model after a history; transition = one more operation, replayed from a fresh model; non-trivial = every executed transition; distinct = history key'
ASSUMPTIONS = ['overriding part of an array-formula block (not possible in Excel): readers of the overridden elements through the block or an overlapping range are not judged against the reference', 'three fixed workbooks stand for "all workbooks"; histories are bounded by the horizon unless the frontier empties earlier (reported)']
B, C = M.B, M.C


def skey(model):
    """models cf / cf2 are model c loaded from real files (linked book first / home book first)"""
    return 'c' if model in ('cf', 'cf2') else model


def ops_for(model):
    """name -> (kind, lib inputs, reference overrides, outputs)"""
    model = skey(model)
    i = lib_id
    if model == 'a':
        A1, A2, B1, C1, F1, D1 = (i(B, 'S', c) for c in ('A1', 'A2', 'B1', 'C1', 'F1', 'D1'))
        k = lambda c: M.K('S', c)
        return {
            'calc': ('calc', {}, {}, None),
            'A1=10': ('calc', {A1: 10}, {k('A1'): ('n', 10.0)}, None),
            'A1=0': ('calc', {A1: 0}, {k('A1'): ('n', 0.0)}, None),
            'A1=txt': ('calc', {A1: 'abc'}, {k('A1'): ('t', 'abc')}, None),
            'A2=err': ('calc', {A2: 'ERR:#DIV/0!'}, {k('A2'): ('e', '#DIV/0!')}, None),
            'B1=100': ('calc', {B1: 100}, {k('B1'): ('n', 100.0)}, None),
            'RATE=5': ('calc', {name_id(B, 'RATE'): 5}, {k('A1'): ('n', 5.0)}, None),
            'A1:A2=7,8': ('calc', {i(B, 'S', 'A1:A2'): [[7], [8]]}, {k('A1'): ('n', 7.0), k('A2'): ('n', 8.0)}, None),
            'A1=3,B1=1': ('calc', {A1: 3, B1: 1}, {k('A1'): ('n', 3.0), k('B1'): ('n', 1.0)}, None),
            'A1=10>C1': ('calc', {A1: 10}, {k('A1'): ('n', 10.0)}, [C1]),
            'A2=4>F1,D1': ('calc', {A2: 4}, {k('A2'): ('n', 4.0)}, [F1, D1]),
            'compile': ('compile', [A1], {k('A1'): ('n', 4.0)}, [C1, F1], [4]),
            'to_dict': ('to_dict',), 'write': ('write',), 'deepcopy': ('deepcopy',),
        }
    if model == 'b':
        A1, A2, A3, T1, T2, SB1 = i(B, 'S', 'A1'), i(B, 'S', 'A2'), i(B, 'S', 'A3'), i(B, 'T', 'A1'), i(B, 'T', 'A2'), i(B, 'S', 'B1')
        return {
            'calc': ('calc', {}, {}, None),
            'A1=1': ('calc', {A1: 1}, {M.K('S', 'A1'): ('n', 1.0)}, None),
            'A1=9': ('calc', {A1: 9}, {M.K('S', 'A1'): ('n', 9.0)}, None),
            'A1=TRUE': ('calc', {A1: True}, {M.K('S', 'A1'): ('b', True)}, None),
            'A3=2': ('calc', {A3: 2}, {M.K('S', 'A3'): ('n', 2.0)}, None),
            'A2=err': ('calc', {A2: 'ERR:#NUM!'}, {M.K('S', 'A2'): ('e', '#NUM!')}, None),
            'T!A1=ok': ('calc', {T1: 'ok'}, {M.K('T', 'A1'): ('t', 'ok')}, None),
            'A1:A3=1,2,3': ('calc', {i(B, 'S', 'A1:A3'): [[1], [2], [3]]}, {M.K('S', 'A1'): ('n', 1.0), M.K('S', 'A2'): ('n', 2.0), M.K('S', 'A3'): ('n', 3.0)}, None),
            'A1=1,A3=x': ('calc', {A1: 1, A3: 'x'}, {M.K('S', 'A1'): ('n', 1.0), M.K('S', 'A3'): ('t', 'x')}, None),
            'A1=1>T2': ('calc', {A1: 1}, {M.K('S', 'A1'): ('n', 1.0)}, [T2]),
            'compile': ('compile', [A1, A3], {M.K('S', 'A1'): ('n', 0.0), M.K('S', 'A3'): ('n', 6.0)}, [SB1, T2], [0, 6]),
            'to_dict': ('to_dict',), 'write': ('write',), 'deepcopy': ('deepcopy',),
        }
    if model == 'c':
        A1, A2, U1, UB1, B1, B2 = i(B, 'S', 'A1'), i(B, 'S', 'A2'), i(C, 'U', 'A1'), i(C, 'U', 'B1'), i(B, 'S', 'B1'), i(B, 'S', 'B2')
        return {
            'calc': ('calc', {}, {}, None),
            'A1=100': ('calc', {A1: 100}, {M.K('S', 'A1'): ('n', 100.0)}, None),
            'U!A1=-5': ('calc', {U1: -5}, {M.K('U', 'A1', C): ('n', -5.0)}, None),
            'BASE=1': ('calc', {name_id(B, 'BASE'): 1}, {M.K('U', 'A1', C): ('n', 1.0)}, None),
            'U!B1=50': ('calc', {UB1: 50}, {M.K('U', 'B1', C): ('n', 50.0)}, None),
            'A2=txt': ('calc', {A2: 'zz'}, {M.K('S', 'A2'): ('t', 'zz')}, None),
            'A1:A2=0,0': ('calc', {i(B, 'S', 'A1:A2'): [[0], [0]]}, {M.K('S', 'A1'): ('n', 0.0), M.K('S', 'A2'): ('n', 0.0)}, None),
            'A1=2>B2': ('calc', {A1: 2}, {M.K('S', 'A1'): ('n', 2.0)}, [B2]),
            'compile': ('compile', [U1], {M.K('U', 'A1', C): ('n', 3.0)}, [B1, B2], [3]),
            'to_dict': ('to_dict',), 'write': ('write',), 'deepcopy': ('deepcopy',),
        }
    if model == 'd':
        k = lambda c: M.K('S', c)
        blk = {k('A1'): ('n', 10.0), k('B1'): ('n', 20.0), k('C1'): ('n', 30.0), k('A2'): ('n', 40.0), k('B2'): ('n', 50.0), k('C2'): ('n', 60.0)}
        sparse = {k('G1'): ('n', 1.0), k('G2'): ('n', 2.0), k('G3'): ('n', 3.0), k('G4'): ('n', 4.0), k('G5'): ('n', 5.0)}
        return {
            'calc': ('calc', {}, {}, None),
            'A1:C2=block': ('calc', {i(B, 'S', 'A1:C2'): [[10, 20, 30], [40, 50, 60]]}, blk, None),
            'B1=8': ('calc', {i(B, 'S', 'B1'): 8}, {k('B1'): ('n', 8.0)}, None),
            'G1:G5=1..5': ('calc', {i(B, 'S', 'G1:G5'): [[1], [2], [3], [4], [5]]}, sparse, None),
            'G3=11': ('calc', {i(B, 'S', 'G3'): 11}, {k('G3'): ('n', 11.0)}, None),
            'G2=txt,G5=2': ('calc', {i(B, 'S', 'G2'): 'q', i(B, 'S', 'G5'): 2}, {k('G2'): ('t', 'q'), k('G5'): ('n', 2.0)}, None),
            'E1=0': ('calc', {i(B, 'S', 'E1'): 0}, {k('E1'): ('n', 0.0)}, None),
            'TOTAL=1': ('calc', {name_id(B, 'BLOCK_TOTAL'): 1}, {k('E1'): ('n', 1.0)}, None),
            'GROSS=200': ('calc', {name_id(B, 'GROSS'): 200}, {'NAME:%s|GROSS' % B: ('n', 200.0)}, None),
            'C2=1>E4': ('calc', {i(B, 'S', 'C2'): 1}, {k('C2'): ('n', 1.0)}, [i(B, 'S', 'E4')]),
            'G5=2>H1': ('calc', {i(B, 'S', 'G5'): 2}, {k('G5'): ('n', 2.0)}, [i(B, 'S', 'H1')]),
            'G2=9,G5=2>H1,H2': ('calc', {i(B, 'S', 'G2'): 9, i(B, 'S', 'G5'): 2}, {k('G2'): ('n', 9.0), k('G5'): ('n', 2.0)}, [i(B, 'S', 'H1'), i(B, 'S', 'H2')]),
            'compile': ('compile', [i(B, 'S', 'A1:C2')], blk, [i(B, 'S', 'E2'), i(B, 'S', 'E3')], [[[10, 20, 30], [40, 50, 60]]]),
            # (J2 = A1*3 and E1 = SUM(A1:C2) do not depend on the input: they are pre-computed when the function is compiled)
            'compile-G': ('compile', [i(B, 'S', 'G3')], {k('G3'): ('n', 11.0)}, [i(B, 'S', 'H1'), i(B, 'S', 'H2'), i(B, 'S', 'J2'), i(B, 'S', 'E1')], [11]),
            'to_dict': ('to_dict',), 'write': ('write',), 'deepcopy': ('deepcopy',),
        }
    if model == 'e':
        k = lambda c: M.K('S', c)
        ov = {k(c): ('n', float(v)) for c, v in zip(('B3', 'C3', 'B4', 'C4', 'B5', 'C5', 'B6', 'C6'), range(1, 9))}
        return {
            'calc': ('calc', {}, {}, None),
            'A1=5': ('calc', {i(B, 'S', 'A1'): 5}, {k('A1'): ('n', 5.0)}, None),
            'B3:C6=1..8': ('calc', {i(B, 'S', 'B3:C6'): [[1, 2], [3, 4], [5, 6], [7, 8]]}, ov, None),
            'B2=5': ('calc', {i(B, 'S', 'B2'): 5}, {k('B2'): ('n', 5.0)}, None),
            'B4=txt': ('calc', {i(B, 'S', 'B4'): 'q'}, {k('B4'): ('t', 'q')}, None),
            'B1:B4=9,8,7,6': ('calc', {i(B, 'S', 'B1:B4'): [[9], [8], [7], [6]]}, {k('B%d' % r): ('n', float(10 - r)) for r in (1, 2, 3, 4)}, None),
            'A1:A4=2,2,2,2': ('calc', {i(B, 'S', 'A1:A4'): [[2], [2], [2], [2]]}, {k('A%d' % r): ('n', 2.0) for r in (1, 2, 3, 4)}, None),
            'C5=0>D1': ('calc', {i(B, 'S', 'C5'): 0}, {k('C5'): ('n', 0.0)}, [i(B, 'S', 'D1')]),
            'A1:B4=v1': ('calc', {i(B, 'S', 'A1:B4'): [[1, 10], [2, 20], [3, 30], [4, 50]]}, dict({k('A%d' % r): ('n', float(r)) for r in (1, 2, 3, 4)}, **{k('B%d' % r): ('n', v) for r, v in zip((1, 2, 3, 4), (10.0, 20.0, 30.0, 50.0))}), None),
            'A1:B4=v2': ('calc', {i(B, 'S', 'A1:B4'): [[9, 1], [9, 2], [9, 3], [9, 4]]}, dict({k('A%d' % r): ('n', 9.0) for r in (1, 2, 3, 4)}, **{k('B%d' % r): ('n', float(r)) for r in (1, 2, 3, 4)}), None),
            'F1:F4=1..4': ('calc', {i(B, 'S', 'F1:F4'): [[1], [2], [3], [4]]}, {k('F%d' % r): ('n', float(r)) for r in (1, 2, 3, 4)}, None),
            'compile': ('compile', [i(B, 'S', 'A1')], {k('A1'): ('n', 7.0)}, [i(B, 'S', 'D1'), i(B, 'S', 'D2')], [7]),
            'to_dict': ('to_dict',), 'write': ('write',), 'deepcopy': ('deepcopy',),
        }
    if model == 'r':
        return {
            'calc': ('calc', {}, {}, None),
            'A1=2': ('calc', {RP + 'A1': 2}, {}, None),
            'A1=-1': ('calc', {RP + 'A1': -1}, {}, None),
            'B6=x': ('calc', {RP + 'B6': 'x'}, {}, None),
            'A1=3>E1': ('calc', {RP + 'A1': 3}, {}, [RP + 'E1', RP + 'E2']),
            'compile': ('compile', [RP + 'A1'], {}, [RP + 'E1', RP + 'E4'], [5]),
            'to_dict': ('to_dict',), 'write': ('write',), 'deepcopy': ('deepcopy',),
        }
    if model == 'rc':
        n = lambda v: "[[('n', %r)]]" % float(v)
        return {
            'calc': ('calc', {}, {'K4': n(8), 'D1': n(16)}, None),
            'B1=5': ('calc', {RP + 'B1': 5}, {'A1': n(13), 'C1': n(26), 'B1': n(5), 'K4': n(8)}, None),
            'A1=2': ('calc', {RP + 'A1': 2}, {'B1': n(3), 'C1': n(4), 'A1': n(2)}, None),
            'K1=3': ('calc', {RP + 'K1': 3}, {'K4': n(24), 'D1': n(48)}, None),
            'B1=5,K1=3': ('calc', {RP + 'B1': 5, RP + 'K1': 3}, {'A1': n(29), 'C1': n(58), 'K4': n(24)}, None),
            'B1=5>C1': ('calc', {RP + 'B1': 5}, {'C1': n(26)}, [RP + 'C1']),
            'to_dict': ('to_dict',), 'deepcopy': ('deepcopy',),
        }
    raise ValueError(model)


# model rc: a workbook with an unbreakable cycle (A1 = B1+K4, B1 = A1+1) next to a chain of formulas K1..K4; overriding a member of the
# cycle opens it.  Expected values are written by hand (third element of each operation).
RAW_RC = {}


# model r: written as a raw dictionary (array constants holding empty text, a blank cell read through a range and alone): there is
# no reference evaluator for it, so every operation is judged only against the same operation on a freshly built model
RP = "'[b.xlsx]S'!"
RAW_R = {
    RP + 'A1': 1, RP + 'B1:D1': '={"a","","c"}', RP + 'E1': '=LEN(%sC1)+%sA1' % (RP, RP), RP + 'E2': '=%sB1&%sC1&%sD1' % (RP, RP, RP),
    RP + 'B3:C4': '=IF(%sA1>0,{"","x";1,""},0)' % RP, RP + 'E3': '=COUNTA(%sB3:C4)+COUNTBLANK(%sB3:C4)*10' % (RP, RP), RP + 'E4': '=%sC3&"|"&%sB3&"|"&%sA1' % (RP, RP, RP),
    RP + 'B5': 4, RP + 'E5': '=SUM(%sB5:B8)&"/"&ISBLANK(%sB6)&"/"&%sB7' % (RP, RP, RP), RP + 'E6': '=IF(%sB6="",1,2)+%sA1' % (RP, RP),
}


RAW_RC.update({RP + 'K1': 1, RP + 'K2': '=%sK1*2' % RP, RP + 'K3': '=%sK2*2' % RP, RP + 'K4': '=%sK3*2' % RP, RP + 'A1': '=%sB1+%sK4' % (RP, RP), RP + 'B1': '=%sA1+1' % RP,
               RP + 'C1': '=%sA1*2' % RP, RP + 'D1': '=%sK4*2' % RP})


# Overriding PART of an array-formula block is not an Excel operation ("You cannot change part of an array"): what a reader of
# the block, or of a range overlapping it, sees of the overridden elements is not fixed by the statement.  Those readers are
# not judged against the reference (they still must not depend on the history); everything else is.
UNJUDGED = {'e': {'B3:C6=1..8': ['B3', 'B4', 'D3', 'D4', 'D5'], 'B2=5': ['D4', 'D5'], 'B4=txt': ['D4', 'D1', 'D5']}}


def lib_value(v):
    from formulas.tokens.operand import Error
    if isinstance(v, str) and v.startswith('ERR:'):
        return Error.errors[v[4:]]
    return v


def fresh(model):
    from xl import wbspec as X
    if model == 'r':
        import formulas
        return formulas.ExcelModel().from_dict(dict(RAW_R))
    if model == 'rc':
        import formulas
        return formulas.ExcelModel().from_dict(dict(RAW_RC), assemble=False).finish(complete=False, circular=True)
    if model in ('cf', 'cf2'):
        spec = M.MODELS['c']()
        with X.Scratch() as d:
            return X.model_from_files(spec, d, load=[M.C, M.B] if model == 'cf' else [M.B, M.C])
    return X.model_from_dict(M.MODELS[model]())


def apply(m, model, name):
    """-> (model to continue with, observable result)"""
    from xl import wbspec as X
    o = ops_for(model)[name]
    if o[0] == 'calc':
        inputs = {k: lib_value(v) for k, v in o[1].items()}
        sol = m.calculate(inputs, o[3]) if o[3] else m.calculate(inputs)
        return m, ('sol', sol)
    if o[0] == 'compile':
        f = m.compile(o[1], o[3])
        res = f(*o[4])
        return m, ('vals', res)
    if o[0] == 'to_dict':
        return m, ('dict', json.dumps(m.to_dict(), sort_keys=True, default=str))
    if o[0] == 'write':
        m.write()
        return m, ('none', None)
    if o[0] == 'deepcopy':
        return copy.deepcopy(m), ('none', None)
    raise ValueError(o)


def observe(model, name, res):
    """canonical, comparable form of an operation's result."""
    from xl import wbspec as X
    from xl.evalcell import classify_array
    kind, val = res
    if model in ('r', 'rc') and kind == 'sol':
        import numpy as np
        return {k: str(classify_array(np.asarray(v.value, object))) for k, v in val.items() if isinstance(k, str) and k.startswith(RP) and hasattr(v, 'value')}
    spec = M.MODELS[skey(model)]() if model not in ('r', 'rc') else None
    if kind == 'sol':
        o = ops_for(model)[name]
        keys = list(spec['cells']) + [k for ak in spec['arrays'] for k in spill_keys(ak)] + [k for k in (o[2] if len(o) > 2 else {}) if k not in spec['cells'] and not k.startswith('NAME:')]
        return {k: v for k, v in X.canon_solution(val, spec, keys).items() if v is not None}
    if kind == 'vals':
        import numpy as np
        return [classify_array(np.asarray(getattr(v, 'value', v), object)) for v in (val if isinstance(val, (list, tuple)) else [val])]
    return val


def spill_keys(ak):
    from ref import wbeval as W
    b, s, r = ak.split('|')
    c1, r1, c2, r2 = W.parse_rect(r)
    return [W.key(b, s, W.coord(c, rr)) for rr in range(r1, r2 + 1) for c in range(c1, c2 + 1)]


def reference(model, name):
    from ref import wbeval as W
    o = ops_for(model)[name]
    if model in ('r', 'rc'):
        return None
    spec = M.MODELS[skey(model)]()
    try:
        if o[0] in ('calc', 'compile'):
            ref, _ = W.solve(spec, o[2])
            return ref
    except W.Ambiguous:
        pass
    return None


def run_case(case):
    _, model, hist = case
    from mc.fingerprint import fingerprint
    from xl.evalcell import exc_name
    from ref.values import close, BLANK
    fails = []
    name = hist[-1]
    desc = dict(model=model, op=name, hist='>'.join(hist[:-1]), depth=len(hist))
    try:
        m = fresh(model)
        for h in hist[:-1]:
            m, _ = apply(m, model, h)
        m, res = apply(m, model, name)
        got = observe(model, name, res)
    except Exception as e:
        return result(len(hist), ['escape'], [Fail('escape', got='%s:%s' % (exc_name(e), str(e)[:100]), exp='a result', **desc)]) | {'fp': None}
    # (1) the same single operation on a model built from scratch
    m0, r0 = apply(fresh(model), model, name)
    exp = observe(model, name, r0)
    if got != exp:
        diff = first_diff(got, exp)
        fails.append(Fail('history-dependent', got=diff[0], exp=diff[1], **desc))
    if model == 'rc' and ops_for(model)[name][0] == 'calc':
        for c, want in ops_for(model)[name][2].items():
            if got.get(RP + c) != want:
                fails.append(Fail('wrong-value', got='%s=%s' % (c, got.get(RP + c)), exp='%s=%s' % (c, want), cell=c, **desc))
                break
    # (2) the reference evaluation with the overrides as constants
    ref = reference(model, name)
    o = ops_for(model)[name]
    if ref is not None and o[0] == 'calc':
        unj = {M.K('S', c) for c in UNJUDGED.get(model, {}).get(name, ())}
        for k, v in got.items():
            if k in unj:
                continue
            e = ref.get(k, BLANK)
            if not (v == e or close(v, e, 1e-12) or (e == BLANK and v == BLANK)):
                fails.append(Fail('wrong-value', got='%s=%s' % (k, v), exp='%s=%s' % (k, e), cell=k, **desc))
                break
        if o[3] is None:
            missing = [k for k in ref if k not in got and ref[k] != BLANK and k not in unj]
            if missing:
                fails.append(Fail('wrong-value', got='%s absent' % missing[0], exp='%s=%s' % (missing[0], ref[missing[0]]), cell=missing[0], **desc))
    if ref is not None and o[0] == 'compile':
        from xl.wbspec import lib_id
        outs = o[3]
        for oid, v in zip(outs, got):
            k = [kk for kk in ref if lib_id(*kk.split('|')) == oid][0]
            vv = v[0][0] if isinstance(v, list) else v
            if not (vv == ref[k] or close(vv, ref[k], 1e-12)):
                fails.append(Fail('wrong-value', got='%s=%s' % (k, vv), exp='%s=%s' % (k, ref[k]), cell=k, **desc))
                break
    fp = fingerprint(m.dsp)
    return result(len(hist) + 1, ['%s:%s' % (model, o[0])], fails) | {'fp': fp}


def first_diff(a, b):
    if isinstance(a, dict) and isinstance(b, dict):
        for k in sorted(set(a) | set(b)):
            if a.get(k) != b.get(k):
                return '%s=%s' % (k, a.get(k)), '%s=%s' % (k, b.get(k))
    return str(a)[:200], str(b)[:200]


def run(ctx):
    horizon = 3 if ctx.tier == 'quick' else 8
    cap = 400 if ctx.tier == 'quick' else 300    # frontier histories expanded per level and model (reported if hit)
    closed, capped = {}, {}
    states_total = 0
    for model in list(M.MODELS) + ['r', 'rc', 'cf', 'cf2']:
        names = list(ops_for(model))
        seen = set()
        frontier = [[]]
        depth = 0
        while frontier and depth < horizon:
            depth += 1
            if len(frontier) > cap:
                capped[model] = (depth, len(frontier))
                ctx.exhaustive = False
                frontier = frontier[:cap]
            cases = [['hist', model, h + [n]] for h in frontier for n in names]
            nxt = []
            for case, r in pmap(run_case, cases, 8):
                fp = r.pop('fp', None)
                ctx.add(case, r)
                if fp is not None and fp not in seen:
                    seen.add(fp)
                    nxt.append(case[2])
            frontier = sorted(nxt)
        closed[model] = (not frontier, depth)
        states_total += len(seen)
    return {'states': states_total, 'horizon': horizon,
            'frontier_emptied': {k: v[0] for k, v in closed.items()}, 'depth_reached': {k: v[1] for k, v in closed.items()},
            'frontier_cap_hit': capped, 'alphabet': {m: list(ops_for(m)) for m in list(M.MODELS) + ['r', 'rc', 'cf', 'cf2']}}
