"""C05 Array evaluation is the scalar rule lifted element-wise and fitted.
Engine E1, three complete spaces:
  lift   operator / element-wise function x every stretch-compatible shape combination x value variant x spelling
  fit    result producer x every result shape x every destination shape x value variant
  count  variadic element-wise function x argument count 1..40 x position and kind of the non-scalar argument
The scalar result of every element tuple is the implementation's own scalar
evaluation (ref/lift.py only decides *which* elements meet and where they land)."""
import functools
from mc.core import Fail, result
from ref.values import N, T, B, BLANK, literal
from ref import lift as L

MANIFEST = {
    'engine': 'E1',
    'technique': 'bounded exhaustive enumeration of shape combinations x destination shapes x argument counts on the real code vs reference lifting/fitting rules',
    'text': 'All 15 operators and 32 element-wise functions are evaluated on every stretch-compatible combination of argument shapes '
            '(scalar, 1xn, mx1, mxn; m,n <= 3 quick / 4 thorough) with position-coded elements and one error/blank/text/logical element per argument (and every ordered pair of arguments holding two different errors), '
            'as array literals and as referenced ranges; every result shape <= 4x4 (also produced next to an error-valued scalar operand) is stored into every destination shape <= 4x4; CONCATENATE/IFS/SWITCH are '
            'called with 1..40 arguments with the non-scalar argument first, 31st..33rd and last (thorough: every position; plus mixed literal/reference '
            'spelling, four 4-argument calls and five more result producers).  Each array result is compared position by position with the '
            'implementation\'s own scalar result for the element tuple selected by the reference broadcasting / fitting rule; nothing sampled. The argument-count space also uses arrays whose elements are equal as Python values but of different Excel kinds ({1,TRUE,1,"1"}, {0,FALSE;"",0}).' ' Later additions: destinations one row and column larger than the common extent (padding with #N/A), a range read twice in one formula by a numeric and a blank-sensitive reader, padded IS* results, elements on which the wrapped function itself raises, mixed error kinds with precedence.',
    'note': 'Trusted: ref/lift.py (audited against the Excel-computed array formulas of test.xlsx); scalar semantics are taken from the implementation and judged by C02/C12; '
            'non-stretchable shape pairs and shapes beyond the bound are not decided.',
}
RULE = ('every (operator|function, shape combination, variant, spelling), every (producer, result shape, destination shape, variant), '
        'every (function, count, position, kind, marker, spelling); non-trivial = evaluated on the implementation; distinct = distinct case key')
ASSUMPTIONS = [
    'scalar results come from the implementation itself (this property judges only lifting, fitting and the argument-count law)',
    'shape pairs that are not stretch-compatible (e.g. 2x2 with 1x3) are excluded',
    'a 1x1 array behaves like a scalar (fills a destination range)',
    'a non-scalar result stored into a single cell may be its top-left element (array formula) or #VALUE! (ordinary formula, implicit intersection)',
    'for IS* functions the cells beyond the result may hold either #N/A (statement) or f(#N/A) (what Excel stored in test.xlsx INFORMATION!AG14:AV14)',
    'array literals cannot hold blanks: the blank-element runs exist only in the referenced-range spelling',
    'neutral arguments of the count law: "" for CONCATENATE, (FALSE, x) pairs for IFS, (non-matching key, x) pairs for SWITCH',
]

ERR = ('e', '#DIV/0!')
NAV = ('e', '#N/A')
SPECIAL = {'err': ERR, 'blank': BLANK, 'text': T('tx'), 'log': B(True), 'na': NAV}
ALPHA = 'AbCdEfGhIjKlMnOpQrSt'
BIN = {'+': 'nn', '-': 'nn', '*': 'nn', '/': 'nn', '^': 'ni', '&': 'tn',
       '=': 'mm', '<>': 'mm', '<': 'mm', '>': 'mm', '<=': 'mm', '>=': 'mm'}
UNA = {'u-': 'n', 'u+': 't', '%': 'n'}
FUNCS = {
    'ABS': 's', 'SIGN': 's', 'INT': 's', 'SQRT': 'n', 'EXP': 'n', 'LN': 'n', 'LOG10': 'n',
    'ROUND': 'fd', 'ROUNDUP': 'fd', 'ROUNDDOWN': 'fd', 'TRUNC': 'fd', 'MOD': 'ni', 'POWER': 'ni', 'ATAN2': 'nn',
    'IF': 'cnn', 'IFERROR': 'nn', 'IFNA': 'nn', 'NOT': 'z', 'IFS': 'zn', 'SWITCH': 'mmn',
    'CONCATENATE': 'tt', 'LEFT': 'ti', 'RIGHT': 'ti', 'MID': 'tii', 'UPPER': 't', 'LOWER': 't', 'LEN': 't', 'TRIM': 'w',
    'ISNUMBER': 'n', 'ISTEXT': 'n', 'ISERROR': 'n', 'ISBLANK': 'n',
}
KINDS = dict(BIN, **UNA, **FUNCS)
# thorough only: 4-argument calls (name/arity), explored with m,n <= 3 and the error variant only
FUNCS4 = {'IFS/4': 'znzn', 'SWITCH/4': 'mmnn', 'REPLACE/4': 'tiit', 'SUBSTITUTE/4': 'toti'}
ALLKINDS = dict(KINDS, **FUNCS4)
# result producers of the fit space: (template, element kind, pad) - pad: f(#N/A) is also accepted beyond the result (ASSUMPTIONS)
PRODUCERS = {'id': ('=%s', 'n', False), 'add0': ('=%s+0', 'n', False), 'iferror': ('=IFERROR(%s,0)', 'n', False),
             'isnumber': ('=ISNUMBER(%s)', 'n', True), 'adderr': ('=%s+#DIV/0!', 'n', False)}
PRODUCERS_T = {'rounderr': ('=ROUND(%s,#DIV/0!)', 'n', False), 'errcat': ('=#DIV/0!&%s', 't', False), 'neg': ('=-%s', 'n', False), 'concat': ('=%s&""', 't', False), 'if': ('=IF(TRUE,%s,0)', 'n', False),
               'upper': ('=UPPER(%s)', 't', False), 'istext': ('=ISTEXT(%s)', 't', True)}
ALLPROD = dict(PRODUCERS, **PRODUCERS_T)


def fname(key):
    return key[:-2] if key.endswith('/4') else key


def elem(kind, k, i, j):
    """Position-coded element (row i, column j) of argument k."""
    p, n = 4 * i + j, 100 * (k + 1) + 10 * (i + 1) + j + 1
    if kind == 'n':
        return N(n)
    if kind == 's':
        return N((n + .5) * (-1) ** (i + j))
    if kind == 'f':
        return N(n + (p + 1) / 32)
    if kind == 'd':
        return N((p + k) % 7 - 2)
    if kind == 'i':
        return N(1 + (p + 5 * k) % 16)
    if kind == 'm':
        return N(1 + (p + k) % 3)
    if kind == 't':
        return T('pqrs'[k] + '%d%d' % (i + 1, j + 1) + ALPHA[:p + 2])
    if kind == 'o':
        return T(ALPHA[(p + k) % 3:(p + k) % 3 + 2])
    if kind == 'w':
        return T(' ' * (j + 1) + 'pqrs'[k] + ' %d%d' % (i + 1, j + 1) + ' ' * (i + 1))
    if kind == 'c':
        return B((i + j + k) % 2 == 0)
    if kind == 'z':
        return N(0 if (i + j + k) % 2 else n)
    raise ValueError(kind)


def value(kind, k, shp, special=None):
    """Argument k of shape shp; special = kind name placed at one position."""
    if shp == 'S':
        return SPECIAL[special] if special else elem(kind, k, 0, 0)
    m, n = shp
    v = [[elem(kind, k, i, j) for j in range(n)] for i in range(m)]
    if special:
        i, j = (0, n - 1) if n > 1 else (m - 1, 0)
        v[i][j] = SPECIAL[special]
    return v


# ---- spelling ---------------------------------------------------------------
def col(j):
    return 'FGHIJKLMNOP'[j]


def amode(mode, k):
    """'mix': even arguments as literals, odd ones as references."""
    return mode if mode != 'mix' else ('lit', 'rng')[k % 2]


def spell(v, k, mode, inputs, wrap=False):
    """Formula text of argument k; mode 'lit' = literal / array literal,
    'rng' = cell / range reference (value goes to `inputs`)."""
    r0, mode = 1 + 10 * k, amode(mode, k)
    if mode == 'rng':
        if not L.is_matrix(v):
            inputs['F%d' % r0] = v
            return 'F%d' % r0
        ref = 'F%d:%s%d' % (r0, col(len(v[0]) - 1), r0 + len(v) - 1)
        # the library names the 1x1 range F1:F1 by its single cell
        inputs[ref if len(v) * len(v[0]) > 1 else 'F%d' % r0] = ('arr', v)
        return ref
    if not L.is_matrix(v):
        s = literal(v)
        return '(%s)' % s if wrap and s.startswith('-') else s
    return '{%s}' % ';'.join(','.join(literal(x) for x in row) for row in v)


def template(name):
    if name in BIN:
        return '=%s' + name + '%s'
    if name in UNA:
        return {'u-': '=-%s', 'u+': '=+%s', '%': '=%s%%'}[name]
    return '=' + fname(name) + '(' + ','.join(['%s'] * len(ALLKINDS[name])) + ')'


def dest(shp):
    if shp == 'S':
        return 'A1'
    return 'A1:%s%d' % ('ABCDEFGH'[shp[1] - 1], shp[0])


@functools.lru_cache(maxsize=None)
def scalar_eval(tpl, mode, vals):
    """The implementation's own scalar result for one element tuple (pure, memoised per worker)."""
    from xl.evalcell import eval_formula
    inputs = {}
    txt = tpl % tuple(spell(v, k, mode, inputs, wrap=True) for k, v in enumerate(vals))
    return eval_formula(txt, inputs)


def kind_of(v):
    if isinstance(v, tuple):
        return v[1] if v[0] in ('e', 'BAD') else v[0]
    return 'BAD'


def outcome(space, name, got):
    if isinstance(got, tuple):
        return ['%s:%s:%s' % (space, name, kind_of(got))]
    ks = sorted({kind_of(x) for row in got for x in row})
    return ['%s:%s:%dx%d:%s' % (space, name, len(got), len(got[0]), '+'.join(ks))]


def same(got, exp, alt=None):
    """got == exp cell by cell; alt[i][j] (optional) is a second accepted value."""
    if not isinstance(got, list) or len(got) != len(exp) or any(len(a) != len(b) for a, b in zip(got, exp)):
        return False
    for i, row in enumerate(exp):
        for j, e in enumerate(row):
            g = tuple(got[i][j])
            if g != e and not (alt and alt[i][j] is not None and g == alt[i][j]):
                return False
    return True


def as_matrix(v):
    return v if L.is_matrix(v) else [[v]]


def has_bad(m):
    return any(x[0] == 'BAD' for row in m for x in row)


# ---- space 1: lifting ---------------------------------------------------------
def lift_cases(tier):
    thorough = tier == 'thorough'
    for name, kinds in (ALLKINDS if thorough else KINDS).items():
        big = len(kinds) == 4
        for combo in L.compatible(4 if thorough and not big else 3, len(kinds)):
            sn = [L.shape_name(s) for s in combo]
            for mode in ('lit', 'rng') + (('mix',) if thorough and len(kinds) > 1 else ()):
                yield ['lift', name, sn, mode, None]
                for a in range(len(kinds)):
                    for sp in ('err',) if big else ('err', 'blank', 'text', 'log'):
                        if sp != 'blank' or amode(mode, a) == 'rng':
                            yield ['lift', name, sn, mode, [a, sp]]
                # the result stored into a destination one row and one column larger: #N/A beyond the common extent of ALL arguments
                if len(kinds) > 1 and mode == 'lit' and not big:
                    yield ['lift', name, sn, mode, None, 'pad']
                # two different errors in two arguments: which one wins is decided element by element
                if not big:
                    for a in range(len(kinds)):
                        for b in range(len(kinds)):
                            if a != b:
                                yield ['lift', name, sn, mode, [a, 'err', b, 'na']]


def run_lift(case):
    from xl.evalcell import eval_formula
    _, name, sn, mode, var = case[:5]
    pad = len(case) > 5
    kinds, shps = ALLKINDS[name], [L.parse_shape(s) for s in sn]
    spec = lambda k: None if not var else var[1] if var[0] == k else var[3] if len(var) > 2 and var[2] == k else None
    args = [value(kd, k, s, spec(k)) for k, (kd, s) in enumerate(zip(kinds, shps))]
    tpl, inputs = template(name), {}
    txt = tpl % tuple(spell(v, k, mode, inputs, wrap=True) for k, v in enumerate(args))
    rs = L.broadcast_shape(shps)
    exp = as_matrix(L.lift(lambda *e: scalar_eval(tpl, mode, e), args))
    if pad:
        if rs == 'S':
            return result(0, ['skip:scalar-result-fills'])
        got = eval_formula(txt, inputs, ref=dest((rs[0] + 1, rs[1] + 1)), scalar=False)
        exp = L.fit(exp, rs[0] + 1, rs[1] + 1)
    else:
        got = eval_formula(txt, inputs, ref=dest(rs), scalar=False)
    execs = 1 + len(exp) * len(exp[0])
    if has_bad(exp):   # the scalar rule itself escaped: C11's subject, nothing to lift
        return result(execs, ['lift:%s:scalar-escape' % name])
    fails = []
    alt = None
    if pad and name.startswith('IS'):
        fna = scalar_eval(tpl, 'lit', tuple([NAV] * len(kinds)))
        alt = [[fna if (i >= rs[0] or j >= rs[1]) else None for j in range(rs[1] + 1)] for i in range(rs[0] + 1)]
    if not same(got, exp, alt):
        cls = 'lift-escape' if isinstance(got, tuple) else 'lift-wrong'
        fails.append(Fail(cls, got=got, exp=exp, fn=name, shapes='|'.join(sn), classes='|'.join(L.shape_class(s) for s in shps),
                          result=L.shape_name(rs), mode=mode, variant=('pad' if pad else 'base') if not var else var[1] if len(var) < 3 else 'err+na',
                          varg=None if not var else var[0], formula=txt))
    return result(execs, outcome('lift', name, got), fails)


# ---- space 2: fit to range ------------------------------------------------------
def fit_cases(tier):
    for prod in (ALLPROD if tier == 'thorough' else PRODUCERS):
        for mode in ('lit', 'rng'):
            for rs in L.shapes(4):
                for r in range(1, 5):
                    for c in range(1, 5):
                        for sp in (None, 'err', 'blank', 'text', 'log'):
                            if sp != 'blank' or mode == 'rng':
                                yield ['fit', prod, mode, L.shape_name(rs), '%dx%d' % (r, c), sp]


def run_fit(case):
    from xl.evalcell import eval_formula
    _, prod, mode, rsn, dsn, sp = case
    tpl, kind, pad = ALLPROD[prod]
    rs, (r, c) = L.parse_shape(rsn), L.parse_shape(dsn)
    arg, inputs = value(kind, 0, rs, sp), {}
    txt = tpl % spell(arg, 0, mode, inputs)
    got = eval_formula(txt, inputs, ref=dest((r, c)), scalar=False)
    res = L.lift(lambda e: scalar_eval(tpl, mode, (e,)), [arg])
    exp = L.fit(res, r, c)
    if has_bad(exp):
        return result(2, ['fit:%s:scalar-escape' % prod])
    alt = None
    if pad and L.is_matrix(res):
        reach = L.fit([[None] * len(res[0]) for _ in res], r, c)
        fna = scalar_eval(tpl, 'lit', (NAV,))
        alt = [[fna if x == NAV else None for x in row] for row in reach]
    elif (r, c) == (1, 1) and size_of(res) > 1:
        alt = [[('e', '#VALUE!')]]      # one cell: an ordinary (implicitly intersected) formula is also a valid reading
    fails = []
    if not same(got, exp, alt):
        m, n = (1, 1) if rs == 'S' else rs
        fails.append(Fail('fit-escape' if isinstance(got, tuple) else 'fit-wrong', got=got, exp=exp, producer=prod, mode=mode,
                          result=rsn, dest=dsn, rclass=L.shape_class(rs), variant=sp or 'base', surplus=m > r or n > c,
                          same_size=bool(rs != 'S' and rs != (r, c) and m * n == r * c), formula=txt))
    return result(1 + size_of(res), outcome('fit', prod + ':' + L.shape_class(rs) + '>' + dsn, got), fails)


def size_of(v):
    return len(v) * len(v[0]) if L.is_matrix(v) else 1


# ---- space 3: argument-count law -------------------------------------------------
VEC = {'row': (1, 3), 'col': (2, 1), 'mat': (2, 3), 'one': (1, 1), 'err': 'S', 'sc': 'S', 'eq': (1, 4), 'eq0': (2, 2)}
# arrays whose elements are equal as Python values but of different Excel kinds (1, TRUE, 1, "1" / 0, FALSE, "", 0):
# a value-keyed shortcut anywhere on the evaluation path would merge them
EQ = {'eq': [[N(1), B(True), N(1), T('1')]], 'eq0': [[N(0), B(False)], [T(''), N(0)]]}


def count_cases(tier):
    for fn in ('CONCATENATE', 'IFS', 'SWITCH'):
        for k in range(1, 41):
            if (fn == 'IFS' and k % 2) or (fn == 'SWITCH' and k < 3):
                continue
            for p in (range(1, k + 1) if tier == 'thorough' else sorted({1, 31, 32, 33, k})):
                if p > k:
                    continue
                for kind in list(VEC) + (['rowcol'] if fn == 'CONCATENATE' else []):
                    for q in ([0, 1, k] if fn == 'CONCATENATE' else [0, k] if fn == 'IFS' else [0]):
                        if q == p or (kind == 'rowcol' and not q) or (q and k == 1):
                            continue
                        for mode in ('lit', 'rng'):
                            yield ['count', fn, k, p, kind, q, mode]


def vec(kind, vk, k=0):
    """The non-scalar argument: value kind vk, shape by `kind`."""
    if kind == 'err':
        return ERR
    if kind in EQ:
        return [list(r) for r in EQ[kind]]
    return value(vk, k, VEC[kind])


def call_args(fn, k, p, kind, q):
    """[(value, neutral?, by_ref?)] of the k-argument call (p, q 1-based)."""
    lit = lambda v: (v, False, False)
    if fn == 'CONCATENATE':
        a = [(T(''), True, False)] * k
        a[p - 1] = (vec('row' if kind == 'rowcol' else kind, 't'), False, True)
        if q:
            a[q - 1] = (vec('col', 't', 1) if kind == 'rowcol' else T('z'), False, True)
        return a
    if fn == 'IFS':
        a = [(B(False), True, False), (N(7), True, False)] * (k // 2)
        if p % 2:
            a[p - 1:p + 1] = [(vec(kind, 'z'), False, True), lit(N(5))]
        else:
            a[p - 2:p] = [lit(B(True)), (vec(kind, 'n'), False, True)]
        if q and (k - 1) // 2 != (p - 1) // 2:     # catch-all last pair, unless that is p's pair
            a[k - 2:k] = [lit(B(True)), (T('z'), False, True)]
        return a
    # SWITCH(value, key1, result1, ..., [default])
    a = [lit(N(2))]
    for i in range((k - 1) // 2):
        a += [(N(9000 + i), True, False), (T('x'), True, False)]
    if k % 2 == 0:
        a.append(lit(T('d')))
    if p == 1:
        a[0] = (vec(kind, 'm'), False, True)
        a[k - 2 - (k % 2 == 0):k - (k % 2 == 0)] = [lit(N(2)), lit(T('z'))]
    elif p == k and k % 2 == 0:
        a[p - 1] = (vec(kind, 'n'), False, True)
    elif p % 2 == 0:
        a[p - 1:p + 1] = [(vec(kind, 'm'), False, True), lit(T('r'))]
    else:
        a[p - 2:p] = [lit(N(2)), (vec(kind, 'n'), False, True)]
    return a


def run_count(case):
    from xl.evalcell import eval_formula
    _, fn, k, p, kind, q, mode = case
    args = call_args(fn, k, p, kind, q)
    assert len(args) == k, (case, len(args))
    inputs, parts, slot = {}, [], 0
    for v, neutral, by_ref in args:
        if by_ref and mode == 'rng':
            parts.append(spell(v, slot, 'rng', inputs))
            slot += 1
        else:
            parts.append(spell(v, 0, 'lit', None))
    txt = '=%s(%s)' % (fn, ','.join(parts))
    short = [a for a in args if not a[1]]
    rs = L.broadcast_shape([L.shape_of(a[0]) for a in short])
    got = eval_formula(txt, inputs, ref=dest(rs), scalar=False)
    # the equivalent short call, element tuple by element tuple, in the same spelling
    tpl = '=%s(%s)' % (fn, ','.join(['%s'] * len(short)))
    refs = tuple(a[2] and mode == 'rng' for a in short)
    exp = as_matrix(L.lift(lambda *e: scalar_short(tpl, refs, e), [a[0] for a in short]))
    execs = 1 + size_of(exp)
    if has_bad(exp):
        return result(execs, ['count:%s:scalar-escape' % fn])
    fails = []
    if not same(got, exp):
        fails.append(Fail('count-escape' if isinstance(got, tuple) else 'count-wrong', got=got, exp=exp, fn=fn, nargs=k, ge32=k >= 32,
                          pos=p, kind=kind, marker=q, mode=mode, formula=txt if len(txt) < 200 else txt[:200] + '...'))
    return result(execs, outcome('count', '%s:%s:%s' % (fn, 'ge32' if k >= 32 else 'lt32', kind), got), fails)


@functools.lru_cache(maxsize=None)
def scalar_short(tpl, refs, vals):
    from xl.evalcell import eval_formula
    inputs, parts, slot = {}, [], 0
    for v, r in zip(vals, refs):
        if r:
            parts.append(spell(v, slot, 'rng', inputs))
            slot += 1
        else:
            parts.append(spell(v, 0, 'lit', None))
    return eval_formula(tpl % tuple(parts), inputs)


# ---- space 4: lifting over the result of another function (non-contiguous intermediate arrays) ------------
COMPOSE_FN = ['ISNUMBER', 'ISTEXT', 'ISLOGICAL', 'ISERROR', 'ISBLANK', 'ISNA', 'ISNONTEXT', 'ABS', 'NOT', 'LEN', 'UPPER', 'INT', 'SIGN', '-', 'N']
COMPOSE_VALS = {
    '2x3': [[N(1), T('a'), B(True)], [('e', '#N/A'), N(-2.5), T('')]],
    '3x2': [[N(1), T('a')], [B(True), ('e', '#DIV/0!')], [N(-2.5), T('zz')]],
    '2x2': [[N(1), T('a')], [B(False), N(4)]],
    '1x3': [[N(3), T('b'), B(True)]],
}


def compose_cases(tier):
    for fn in COMPOSE_FN:
        for shp in COMPOSE_VALS:
            for inner in ('TRANSPOSE(%s)', 'TRANSPOSE(TRANSPOSE(%s))', 'IF(TRUE,TRANSPOSE(%s))', 'TRANSPOSE(%s)&""'):
                for mode in ('lit', 'rng'):
                    yield ['compose', fn, shp, inner, mode]


def run_compose(case):
    from xl.evalcell import eval_formula
    _, fn, shp, inner, mode = case
    v = COMPOSE_VALS[shp]
    inputs = {}
    arg = spell(v, 0, mode, inputs)
    call = (fn + '(%s)') if fn != '-' else '-(%s)'
    txt = '=' + call % (inner % arg)
    # the intermediate value, element by element, through the same inner expression on scalars
    def scalar(e):
        i2 = {}
        a = spell(e, 0, mode, i2)
        return eval_formula('=' + call % (inner % a), i2)
    t = [list(r) for r in zip(*v)] if inner.count('TRANSPOSE') % 2 else v
    exp = [[scalar(e) for e in row] for row in t]
    got = eval_formula(txt, inputs, ref=dest((len(t), len(t[0]))), scalar=False)
    if has_bad(exp):
        return result(1 + size_of(exp), ['compose:%s:scalar-escape' % fn])
    fails = []
    if not same(got, exp):
        fails.append(Fail('compose-escape' if isinstance(got, tuple) else 'compose-wrong', got=got, exp=exp, fn=fn, shape=shp, inner=inner, mode=mode, formula=txt))
    return result(1 + size_of(exp), outcome('compose', fn, got), fails)


# ---- space 5: arrays whose elements are of mixed kinds against arrays with blanks / errors: the partner of every element
#      is the element at ITS position (not the first one of the other array)
import itertools
MIXK = [T(''), N(0), B(False), T('a'), N(1), B(True), ERR]


def mixed_cases(tier):
    ops = [o for o in BIN] + ['IF/mix', 'IFERROR/mix']
    for op in ops:
        for perm in itertools.permutations(range(len(MIXK)), 3):
            for other in ('blank', 'zero', 'empty', 'err'):
                for orient in ('col', 'row'):
                    for side in (0, 1):
                        if tier == 'quick' and orient == 'row' and perm[0] > 2:
                            continue
                        yield ['mixed', op, list(perm), other, orient, side]


def run_mixed(case):
    from xl.evalcell import eval_formula
    _, op, perm, other, orient, side = case
    mixed = [MIXK[i] for i in perm]
    oth = {'blank': BLANK, 'zero': N(0), 'empty': T(''), 'err': NAV}[other]
    n = len(mixed)
    as_tbl = lambda vec: [[v] for v in vec] if orient == 'col' else [list(vec)]
    inputs = {}
    a_ref = 'F1:F%d' % n if orient == 'col' else 'F1:%s1' % col(n - 1)
    b_ref = 'F11:F%d' % (10 + n) if orient == 'col' else 'F11:%s11' % col(n - 1)
    vecs = [mixed, [oth] * n] if side == 0 else [[oth] * n, mixed]
    inputs[a_ref], inputs[b_ref] = ('arr', as_tbl(vecs[0])), ('arr', as_tbl(vecs[1]))
    if op in BIN:
        tpl = '=%s' + op + '%s'
    elif op == 'IF/mix':
        tpl = '=IF(%s=%s,1,2)'
    else:
        tpl = '=IFERROR(%s<>%s,"e")'
    txt = tpl % (a_ref, b_ref)
    got = eval_formula(txt, inputs, ref=dest((n, 1) if orient == 'col' else (1, n)), scalar=False)
    exp = as_tbl([scalar_eval(tpl, 'rng', (x, y)) for x, y in zip(*vecs)])
    if has_bad(exp):
        return result(1 + n, ['mixed:%s:scalar-escape' % op])
    fails = []
    if not same(got, exp):
        fails.append(Fail('lift-escape' if isinstance(got, tuple) else 'lift-wrong', got=got, exp=exp, fn=op, shapes='%dx1' % n if orient == 'col' else '1x%d' % n,
                          classes='mixed-kinds', result=orient, mode='rng', variant='mixed+' + other, varg=side, formula=txt))
    return result(1 + n, outcome('mixed', op, got), fails)


# ---- space 6: one range with a blank, text, logical, error read TWICE in a formula, first by a numeric operation and then by
#      something that tells a blank from 0 (and the other way round): the second reader sees what the first one saw
def twice_cases(tier):
    elems = [BLANK, N(0), N(-3), T(''), T('tx'), B(True), B(False), ERR]
    for tplk in TWICE:
        for perm in itertools.permutations(range(len(elems)), 3):
            if tier == 'quick' and perm[0] > 3:
                continue
            for orient in ('col', 'row'):
                yield ['twice', tplk, [list(elems[i]) for i in perm], orient]


def _k(e):
    return 'blank' if e == BLANK else e[0]


TWICE = {
    # template, scalar expectation of one element
    'isblank-after-add': ('=IF(ISBLANK(%s),"blank",%s+1)', lambda e: T('blank') if e == BLANK else None),
    'add-then-isblank': ('=IF(%s+1>0,IF(ISBLANK(%s),"b","n"),"neg")', None),
    'add-then-concat': ('=IF(%s*2>=0,%s&"x","neg")', None),
    'abs-then-eq-empty': ('=IF(ABS(%s)>=0,%s="","-")', None),
    'neg-then-count': ('=IF(-%s<=0,ISNUMBER(%s),ISTEXT(%s))', None),
}


def run_twice(case):
    from xl.evalcell import eval_formula
    _, tplk, vec, orient = case
    vec = [tuple(v) for v in vec]
    tpl, _ = TWICE[tplk]
    n = len(vec)
    ref = 'F1:F%d' % n if orient == 'col' else 'F1:%s1' % col(n - 1)
    tbl = [[v] for v in vec] if orient == 'col' else [list(vec)]
    txt = tpl.replace('%s', ref)
    got = eval_formula(txt, {ref: ('arr', tbl)}, ref=dest((n, 1) if orient == 'col' else (1, n)), scalar=False)
    # element by element: the same formula on a one-cell sheet, every use of the range replaced by a fresh literal or its own cell
    def one(e):
        inputs, parts = {}, []
        for k in range(tpl.count('%s')):
            cell = 'F%d' % (1 + 10 * k)
            inputs[cell] = e
            parts.append(cell)
        return eval_formula(tpl % tuple(parts), inputs)
    exp = [[one(e)] for e in vec] if orient == 'col' else [[one(e) for e in vec]]
    if has_bad(exp):
        return result(1 + n, ['twice:%s:scalar-escape' % tplk])
    fails = []
    if not same(got, exp):
        fails.append(Fail('lift-escape' if isinstance(got, tuple) else 'lift-wrong', got=got, exp=exp, fn=tplk, shapes=orient, classes='range-read-twice', result=orient, mode='rng',
                          variant='twice', varg=None, formula=txt))
    return result(1 + n, outcome('twice', tplk, got), fails)


# ---- space 7: (a) an element-wise operation over the result of an IS* function stored into a larger destination: the padding is
#      #N/A (or the operation applied to #N/A), never the fill value of the inner result; (b) one element for which the function has
#      no ordinary answer (a huge magnitude, a character outside the code table) next to ordinary elements: only ITS position is odd
PADDED = ['=IF(ISNUMBER(%s),"y","n")', '=ISNUMBER(%s)*1', '=NOT(ISTEXT(%s))', '=ISERROR(%s)&""', '=-ISBLANK(%s)', '=IF(ISTEXT(%s),1,0)+1', '=ISNUMBER(%s)=TRUE',
          '=ABS(ISLOGICAL(%s))', '=ISNUMBER(-%s)', '=UPPER(ISERROR(%s))']
ODDBALL = [('INT', N(1e20)), ('EVEN', N(1e20)), ('ODD', N(-1e20)), ('CODE', T('\u4e2d')), ('FACT', N(25)), ('CEILING.MATH', N(1e20)), ('FLOOR.MATH', N(1e20)),
           ('TRUNC', N(1e300)), ('ROUND', N(1e300)), ('CHAR', N(70000)), ('SQRT', N(1e308)), ('EXP', N(1000)), ('LN', N(0)), ('ABS', N(-1e308))]
ORDINARY = {'CODE': [T('a'), T('Z')], 'CHAR': [N(65), N(97)]}


def odd_cases(tier):
    for i in range(len(PADDED)):
        for shp in ('1x2', '2x1', '2x2', '1x3'):
            yield ['padded', i, shp]
    for i in range(len(ODDBALL)):
        for pos in (0, 1, 2):
            for orient in ('row', 'col'):
                for mode in ('lit', 'rng'):
                    yield ['oddball', i, pos, orient, mode]


def run_odd(case):
    from xl.evalcell import eval_formula
    fails = []
    if case[0] == 'padded':
        _, i, shp = case
        tpl = PADDED[i]
        m, n = L.parse_shape(shp)
        v = [[(N(3), T('tx'), B(True), ERR, BLANK, N(-1))[(r * n + c) % 6] for c in range(n)] for r in range(m)]
        inputs = {}
        arg = spell(v, 0, 'rng', inputs)
        txt = tpl % arg
        got = eval_formula(txt, inputs, ref=dest((m + 1, n + 1)), scalar=False)
        one = lambda e: scalar_eval(tpl, 'rng', (e,))
        exp = L.fit([[one(e) for e in row] for row in v], m + 1, n + 1)
        fna = one(NAV)
        alt = [[fna if (r >= m or c >= n) else None for c in range(n + 1)] for r in range(m + 1)]
        if not has_bad(exp) and not same(got, exp, alt):
            fails.append(Fail('fit-escape' if isinstance(got, tuple) else 'fit-wrong', got=got, exp=exp, producer=tpl, mode='rng', result=shp, dest='%dx%d' % (m + 1, n + 1),
                              rclass='is-result', variant='padded', surplus=False, same_size=False, formula=txt))
        return result(1 + m * n, outcome('padded', str(i), got), fails)
    _, i, pos, orient, mode = case
    fn, odd = ODDBALL[i]
    ordv = ORDINARY.get(fn, [N(2), N(3.5)])
    vec = list(ordv)
    vec.insert(pos, odd)
    v = [vec] if orient == 'row' else [[x] for x in vec]
    inputs = {}
    tpl = '=%s(%%s)' % fn
    txt = tpl % spell(v, 0, mode, inputs)
    got = eval_formula(txt, inputs, ref=dest((1, 3) if orient == 'row' else (3, 1)), scalar=False)
    exp = [[scalar_eval(tpl, mode, (e,)) for e in row] for row in v]
    if has_bad(exp):
        return result(4, ['oddball:%s:scalar-escape' % fn])
    if not same(got, exp):
        fails.append(Fail('lift-escape' if isinstance(got, tuple) else 'lift-wrong', got=got, exp=exp, fn=fn, shapes=orient, classes='oddball', result=orient, mode=mode,
                          variant='oddball@%d' % pos, varg=0, formula=txt))
    return result(4, outcome('oddball', fn, got), fails)


# ---- driver ---------------------------------------------------------------------
def run_case(case):
    return {'lift': run_lift, 'fit': run_fit, 'count': run_count, 'compose': run_compose, 'mixed': run_mixed, 'twice': run_twice, 'padded': run_odd, 'oddball': run_odd}[case[0]](case)


def run(ctx):
    arities = {}
    for k, v in ALLKINDS.items():
        arities.setdefault(fname(k), set()).add(len(v))
    audit = L.audit(arities, pad_ok={k for k in FUNCS if k.startswith('IS')})
    if audit['disagreements']:
        raise SystemExit('ORACLE-AUDIT-FAILED C05 (ref/lift.py disagrees with Excel cached values): %s' % audit['disagreements'][:5])
    ctx.explore(run_case, lift_cases(ctx.tier), chunksize=128, label='lift')
    ctx.explore(run_case, fit_cases(ctx.tier), chunksize=128, label='fit')
    ctx.explore(run_case, count_cases(ctx.tier), chunksize=64, label='count')
    ctx.explore(run_case, compose_cases(ctx.tier), chunksize=16, label='compose')
    ctx.explore(run_case, mixed_cases(ctx.tier), chunksize=64, label='mixed_kinds')
    ctx.explore(run_case, twice_cases(ctx.tier), chunksize=64, label='range_read_twice')
    ctx.explore(run_case, odd_cases(ctx.tier), chunksize=8, label='padded_is_results_and_oddball_elements')
    return {'max_dim': 3 if ctx.tier == 'quick' else 4, 'operators': len(BIN) + len(UNA),
            'functions': len(FUNCS) + (len(FUNCS4) if ctx.tier == 'thorough' else 0),
            'oracle_audit': {k: v for k, v in audit.items() if k != 'disagreements'}}
