"""C18 The parser is total: it returns a formula or its syntax error, only.
Engine E1: all token sequences up to a length, all short raw strings, all single
token edits of valid formulas, all numeral spellings."""
import itertools
from mc.core import Fail, result
from ref import grammar as G
from ref.values import *

MANIFEST = {
    'engine': 'E1',
    'technique': 'bounded exhaustive enumeration of token sequences / short strings / single edits, parser vs reference recogniser',
    'text': 'Every sequence of <= 5 (thorough 6) tokens over a 16-token alphabet, every string of <= 4 characters over 20 characters, '
            'every single token deletion/insertion/replacement of every valid formula with <= 2 operators and every numeral spelling '
            'over three digits is given to the real parser: it must return or raise FormulaError (totality), agree with a reference '
            'recogniser on accept/reject, and export the reference rendering for accepted input. A juxtaposition space puts 14 complete operand units side by side inside 10 contexts. Further spaces: every sequence of <= 4 (5) tokens over 14 that contains the range operator as a token of its own (rejected when an operand is missing on either side); every text without leading = made of 12 prefixes and <= 3 further characters (only a lone error literal is a formula); a defined name spelled like a function called in the same formula, in both orders; special reference tokens next to ordinary references under every reference operator.' ' Later additions: the range operator as a token, text without leading "=" (also array-formula braces followed by more text), names spelled like called functions, hostless relative references, the spill operator over names, and every token sequence of <= 3 (thorough 4) tokens followed by !#REF! (only a sheet name may precede a qualified error literal). Array constants by the widths of their rows: every tuple of row widths over 1..3 for up to 4 rows (thorough 1..4, up to 5 rows), mixed element kinds, in 4 contexts: accepted exactly when all rows are equally wide.',
    'note': 'Trusted: ref/grammar.py recogniser. Sequences whose tokens merge lexically, x%%, parenthesised operands next to a space, '
            'and top-level unions are judged for totality only.',
}
RULE = ('all token sequences of the stated length over the 16-token alphabet in two renderings (chunked by the first two tokens); '
        'non-trivial = chunk in which the parser was run; distinct = distinct chunk key; strings parsed are counted in transitions')
ASSUMPTIONS = ['accept/reject oracle limited to the token alphabet; random printable strings of the statement replaced by exhaustive short strings']

TOK = ['1', '"s"', 'A1', 'TRUE', '#N/A', 'F(', '(', ')', '{', '}', ',', ';', '+', '-', '*', '%']
ALNUM_END = {'1', 'A1', 'TRUE'}
ALNUM_START = {'1', 'A1', 'TRUE', 'F('}
OPERANDISH_END = {'1', '"s"', 'A1', 'TRUE', '#N/A', ')', '}', '%'}
OPERANDISH_START = {'1', '"s"', 'A1', 'TRUE', '#N/A', '(', 'F(', '{'}
CHARS = list('01.E+-*%(){},;"\'!:A') + ['\t']


def parse(text):
    from formulas import Parser
    from formulas.errors import FormulaError
    try:
        return 'VALID', Parser().ast(text)[1]
    except FormulaError:
        return 'INVALID', None
    except RecursionError:
        return 'ESC:RecursionError', None
    except Exception as e:
        return 'ESC:' + type(e).__name__, None


def install_probe():
    import formulas
    formulas.get_functions()['F'] = lambda *a: 0


def judge_tokens(toks, sp):
    """-> (text, expectation, tree, features) ; expectation VALID/INVALID/UNSPEC/SKIP"""
    feats = []
    if sp == '':
        for a, b in zip(toks, toks[1:]):
            if (a in ALNUM_END and b in ALNUM_START) or (a == '"s"' and b == '"s"') or (a == '#N/A' and b in ALNUM_START) \
                    or (a in ('A1', 'TRUE') and b == '('):      # A1( / TRUE( lex as a call of a function of that name
                return None, 'SKIP', None, feats
        text = ''.join(toks)
        rt = list(toks)
    else:
        # a blank between two operand-ish tokens is the intersection operator
        rt, unspec = [], False
        for i, t in enumerate(toks):
            if i and toks[i - 1] in OPERANDISH_END and t in OPERANDISH_START:
                if toks[i - 1] == 'A1' and t == 'A1':
                    rt.append(' ')
                elif toks[i - 1] in (')', '}', '%') or t in ('(', 'F(', '{'):
                    unspec = True
                    rt.append(' ')
                else:
                    rt.append('ADJ')      # two constants side by side: never valid
            rt.append(t)
        text = ' '.join(toks)
        if unspec:
            return text, 'UNSPEC', None, feats
    st, tree = G.recognise(rt)
    return text, st, tree, feats


def features(toks):
    f = []
    for a, b in zip(toks, toks[1:]):
        if a == ',' and b == '%':
            f.append(',%')
    depth = []   # what is open
    for t in toks:
        if t in ('(', 'F('):
            depth.append('(')
        elif t == '{':
            depth.append('{')
        elif t == ')':
            if depth and depth[-1] == '(':
                depth.pop()
            else:
                f.append(')mismatch')
        elif t == '}':
            if depth and depth[-1] == '{':
                depth.pop()
            else:
                f.append('}mismatch')
        elif t == ';':
            if not depth or depth[-1] != '{':
                f.append(';outside')
        elif t == ',':
            if depth and depth[-1] == '{':
                pass
    return '+'.join(sorted(set(f))) or 'none'


def check_tokens(toks, sp, fails, oc, src, lower=False):
    text, exp, tree, _ = judge_tokens(toks, sp)
    if lower and text is not None:
        # letter case is insignificant: same verdict and same (upper-cased) export as the upper-case text
        text = text.lower()
    if exp == 'SKIP':
        oc['skip:lexical-merge'] = oc.get('skip:lexical-merge', 0) + 1
        return 0
    st, b = parse('=' + text)
    k = '%s/%s' % (exp, st)
    oc[k] = oc.get(k, 0) + 1
    if st.startswith('ESC'):
        fails.append(Fail('escape', got=st, exp='FormulaError or a formula', text='=' + text, src=src, feat=features(toks)))
    elif exp == 'VALID' and st == 'INVALID':
        fails.append(Fail('rejected-valid', got=st, exp=exp, text='=' + text, src=src, feat=features(toks), signrun=G.has_sign_run(text)))
    elif exp == 'INVALID' and st == 'VALID':
        fails.append(Fail('accepted-invalid', got=b[-1].get_expr, exp='rejected', text='=' + text, src=src, feat=features(toks)))
    elif exp == 'VALID' and st == 'VALID':
        got = b[-1].get_expr
        e1, e2 = G.full(tree), G.full(G.normalise(tree))
        if (got.upper() not in (e1.upper(), e2.upper())) if lower else (got not in (e1, e2)):
            fails.append(Fail('misread', got=got, exp=e1, text='=' + text, src=src, feat=features(toks), signrun=G.has_sign_run(text)))
    return 1


def run_soup(case):
    _, L, i, j, sp = case
    install_probe()
    fails, oc, n = [], {}, 0
    head = [TOK[i]] if L == 1 else [TOK[i], TOK[j]]
    lower = sp == 'lower'
    for rest in itertools.product(TOK, repeat=max(L - 2, 0)):
        n += check_tokens(head + list(rest), '' if lower else sp, fails, oc, 'soup-lower' if lower else 'soup', lower=lower)
    return result(n, ['%s' % k for k in oc], fails)


def soup_cases(tier):
    maxl = 5 if tier == 'quick' else 6
    for L in range(1, maxl + 1):
        for sp in ('', ' '):
            if sp == ' ' and L > (4 if tier == 'quick' else 5):
                continue
            if L == 1:
                for i in range(16):
                    yield ['soup', 1, i, 0, sp]
            else:
                for i in range(16):
                    for j in range(16):
                        yield ['soup', L, i, j, sp]
    for L in range(1, 5):           # the same sequences in lower case
        for i in range(16):
            for j in (range(16) if L > 1 else [0]):
                yield ['soup', L, i, j, 'lower']


def run_raw(case):
    _, L, i = case
    fails, oc, n = [], {}, 0
    for rest in itertools.product(CHARS, repeat=L - 1):
        text = '=' + CHARS[i] + ''.join(rest)
        st, b = parse(text)
        n += 1
        oc[st] = oc.get(st, 0) + 1
        if st.startswith('ESC'):
            fails.append(Fail('escape', got=st, exp='FormulaError or a formula', text=text, src='raw', feat='raw'))
    return result(n, list(oc), fails)


def raw_cases(tier):
    for L in range(1, 5 if tier == 'quick' else 6):
        for i in range(len(CHARS)):
            yield ['raw', L, i]


# ---- single edits of valid formulas
E_OPERANDS = {'2', '3', '5', '7', '"s"', 'A1', 'TRUE', '#N/A'}
E_VALUES = {'2': N(2), '3': N(3), '5': N(5), '7': N(7), '"s"': T('s'), 'A1': None, 'TRUE': B(True), '#N/A': NA}
E_TOK = ['2', '"s"', 'A1', '(', ')', '{', '}', ',', ';', '+', '*', '=', '<=', '&', '^', '%', 'F(']


def tokens_of(t):
    """token list of the 'safe' spelling of a C01 tree."""
    k = t[0]
    if k == 'leaf':
        return [t[1]]
    if k == 'bin':
        p = G.RANK[t[1]]
        l, r = tokens_of(t[2]), tokens_of(t[3])
        if G.prec(t[2]) < p:
            l = ['('] + l + [')']
        if G.prec(t[3]) <= p or t[3][0] in ('neg', 'pos'):
            r = ['('] + r + [')']
        return l + [t[1]] + r
    x = tokens_of(t[1])
    if t[1][0] != 'leaf':
        x = ['('] + x + [')']
    return x + ['%'] if k == 'pct' else [('-' if k == 'neg' else '+')] + x


def edit_cases(tier):
    leaves = [G.leaf('2', N(2)), G.leaf('3', N(3)), G.leaf('5', N(5))]
    n = 0
    for size in (1, 2):
        for t, _ in G.trees(size, leaves):
            yield ['edit', tokens_of(t)]


def run_edit(case):
    _, toks = case
    install_probe()
    fails, oc, n = [], {}, 0
    variants = []
    for i in range(len(toks)):
        variants.append(toks[:i] + toks[i + 1:])
        for x in E_TOK:
            variants.append(toks[:i] + [x] + toks[i + 1:])
    for i in range(len(toks) + 1):
        for x in E_TOK:
            variants.append(toks[:i] + [x] + toks[i:])
    for v in variants:
        if not v:
            continue
        skip = False
        for a, b in zip(v, v[1:]):
            if (a in ('2', '3', '5', '7', 'A1', 'TRUE') and b in ('2', '3', '5', '7', 'A1', 'TRUE', 'F(')) or (a == '"s"' and b == '"s"') \
                    or (a in ('=', '<', '>') and b in ('=', '<=', '>', '<')) or (a == '<=' and b == '=') \
                    or (a in ('A1', 'TRUE') and b == '('):
                skip = True
        if skip:
            oc['skip:lexical-merge'] = oc.get('skip:lexical-merge', 0) + 1
            continue
        text = ''.join(v)
        exp, tree = G.recognise(v, binops=tuple(G.BIN), operands=E_OPERANDS, consts={'2', '"s"', 'TRUE', '#N/A', '3', '5', '7'}, values=E_VALUES)
        st, b = parse('=' + text)
        n += 1
        k = '%s/%s' % (exp, st)
        oc[k] = oc.get(k, 0) + 1
        if st.startswith('ESC'):
            fails.append(Fail('escape', got=st, exp='FormulaError or a formula', text='=' + text, src='edit', feat=features(v)))
        elif exp == 'VALID' and st == 'INVALID':
            fails.append(Fail('rejected-valid', got=st, exp=exp, text='=' + text, src='edit', feat=features(v), signrun=G.has_sign_run(text)))
        elif exp == 'INVALID' and st == 'VALID':
            fails.append(Fail('accepted-invalid', got=b[-1].get_expr, exp='rejected', text='=' + text, src='edit', feat=features(v)))
        elif exp == 'VALID' and st == 'VALID':
            got = b[-1].get_expr
            e1, e2 = G.full(tree), G.full(G.normalise(tree))
            if got not in (e1, e2):
                fails.append(Fail('misread', got=got, exp=e1, text='=' + text, src='edit', feat=features(v), signrun=G.has_sign_run(text)))
    return result(n, list(oc), fails)


# ---- numerals
def numeral_cases(tier):
    D = '017'
    ints = [''.join(p) for n in (1, 2, 3) for p in itertools.product(D, repeat=n)]
    fracs = [''] + ['.' + ''.join(p) for n in (1, 2) for p in itertools.product(D, repeat=n)]
    exps = [''] + ['E%s%s' % (s, ''.join(p)) for s in '+-' for n in (1, 2) for p in itertools.product(D, repeat=n)]
    for i in ints + ['']:
        yield ['num', i, fracs if i else fracs[1:], exps]


def run_num(case):
    _, i, fracs, exps = case
    from xl.evalcell import classify, exc_name
    fails, oc, n = [], {}, 0
    for f in fracs:
        for e in exps:
            for ecase in (e, e.lower()):
                text = i + f + ecase
                n += 1
                st, b = parse('=' + text)
                if st == 'VALID':
                    try:
                        v = classify(b.compile()())
                    except Exception as ex:
                        v = ('BAD', 'exc:' + exc_name(ex))
                else:
                    v = st
                want = float(text)
                ok = isinstance(v, tuple) and v[0] == 'n' and v[1] == want
                k = 'num:' + ('ok' if ok else str(v)[:30])
                oc[k] = oc.get(k, 0) + 1
                if not ok:
                    cls = 'escape' if isinstance(v, str) and v.startswith('ESC') else 'numeral'
                    fails.append(Fail(cls, got=v, exp=want, text='=' + text, src='num', feat='leading-zero' if len(i) > 1 and i[0] == '0' else 'plain'))
    return result(n, list(oc), fails)


# ---- reference forms beyond A1: spill anchors, INDIRECT, sheet-qualified errors, in every letter case
SPECIAL = ['A1#', 'ANCHORARRAY(A1)', 'ANCHORARRAY(A1:B2)', '_xlfn.ANCHORARRAY(A1)', 'ANCHORARRAY(S!A1)', 'INDIRECT("A1")', 'INDIRECT("A1:B2")', 'INDIRECT("")',
           'S!#REF!', "'My S'!#REF!", '#REF!#', 'A1:B2#', 'A:A#', '1:1#', 'S!A1#', 'R[1]C[1]#', 'R1C1#', 'ANCHORARRAY()', 'ANCHORARRAY(1)', 'A1##', '#N/A#',
           '#NULL!', '#DIV/0!', '#VALUE!', '#NUM!', '#NAME?', '#GETTING_DATA', '#SPILL!', '#CALC!', '#FIELD!', '#N/A!', '#n/a', '#Ref!',
           # relative and R1C1 references parsed without a host cell
           'R[-5]C[1]', 'R[1]C[1]:R[2]C[2]', 'R[1]:R[2]', 'C[1]:C[2]', 'R[-1]C[-1]', 'R1C1', 'R1C1:R2C2', 'R1:R2', 'C1:C2', 'RC', 'R[0]C[0]', 'S!R[1]C[1]', 'MYNAME', 'S!MYNAME',
           # the spill operator and its function form over names (the name stands for whatever it is defined as)
           'MYNAME#', 'S!MYNAME#', 'ANCHORARRAY(MYNAME)', 'ANCHORARRAY(S!MYNAME)', "ANCHORARRAY('My S'!MYNAME)", 'ANCHORARRAY(MY.NAME_1)', 'ANCHORARRAY(TRUE)', 'ANCHORARRAY("A1")',
           'ANCHORARRAY(#REF!)', 'ANCHORARRAY(A1#)', 'ANCHORARRAY(ANCHORARRAY(A1))', 'ANCHORARRAY(A1,B1)', 'ANCHORARRAY((A1))', 'ANCHORARRAY(A:A)', 'ANCHORARRAY(R[1]C[1])', 'ANCHORARRAY(F(1))']


def special_cases(tier):
    for i in range(len(SPECIAL)):
        yield ['special', i]


def run_special(case):
    _, i = case
    install_probe()
    fails, oc, n = [], {}, 0
    for tpl in ('%s', '%s+1', 'F(%s)', '-%s', '(%s)', '{%s}', 'F(1,%s,)', '%s%%', '1+%s*2', '%s %s', '%s:%s', '(%s,%s)',
                '%s A1', 'A1 %s', '%s:A1', 'A1:%s', '(%s,A1)', 'F(%s A1:B2)', 'F((A1,%s))', '%s B:B', '1:1 %s'):
        for t in (SPECIAL[i], SPECIAL[i].lower(), SPECIAL[i].swapcase()):
            text = '=' + tpl.replace('%s', t).replace('%%', '%')
            st, b = parse(text)
            n += 1
            oc[st] = oc.get(st, 0) + 1
            if st.startswith('ESC'):
                fails.append(Fail('escape', got=st, exp='FormulaError or a formula', text=text, src='special', feat=SPECIAL[i]))
    return result(n, list(oc), fails)


# ---- juxtaposition: two complete operands side by side inside every context
UNITS = [['1'], ['"s"'], ['A1'], ['TRUE'], ['#N/A'], ['(', '1', ')'], ['(', 'A1', ')'], ['F(', '1', ')'], ['F(', ')'], ['{', '1', '}'], ['1', '%'],
         ['(', '-', '1', ')'], ['{', '1', ',', '1', '}'], ['(', '1', '+', '1', ')']]
CONTEXTS = [([], []), (['F('], [',', '1', ')']), (['F(', '1', ','], [')']), (['{'], ['}']), (['('], [')']), (['-'], []), ([], ['+', '1']), (['1', '*'], []),
            (['F(', 'F('], [')', ')']), (['(', '('], [')', ')', '%'])]


def juxta_cases(tier):
    for i in range(len(UNITS)):
        yield ['juxta', i]


def run_juxta(case):
    _, i = case
    install_probe()
    fails, oc, n = [], {}, 0
    for j in range(len(UNITS)):
        for pre, post in CONTEXTS:
            for mid in ([], ['-'], ['(', '-', ')']):
                toks = pre + UNITS[i] + mid + UNITS[j] + post
                if mid == ['-']:
                    continue        # X - Y is simply valid: covered by the soups
                n += check_tokens(toks, '', fails, oc, 'juxta')
    return result(n, list(oc), fails)


# ---- the range operator written as a token of its own: it needs an operand on both sides
TOKC = ['A1', '1', '"s"', '(', ')', 'F(', ',', '+', '-', ':', '{', '}', '%', '#N/A']


def colon_cases(tier):
    for L in range(1, 5 if tier == 'quick' else 6):
        for i in range(len(TOKC)):
            for sp in ('', ' '):
                yield ['colon', L, i, sp]


def run_colon(case):
    _, L, i, sp = case
    install_probe()
    fails, oc, n = [], {}, 0
    for rest in itertools.product(TOKC, repeat=L - 1):
        toks = [TOKC[i]] + list(rest)
        if ':' not in toks:
            continue
        bad = any(t == ':' and (p == 0 or p == len(toks) - 1 or toks[p - 1] not in OPERANDISH_END or toks[p + 1] not in OPERANDISH_START) for p, t in enumerate(toks))
        text = '=' + sp.join(toks)
        st, b = parse(text)
        n += 1
        k = '%s/%s' % ('INVALID' if bad else 'UNSPEC', st)
        oc[k] = oc.get(k, 0) + 1
        if st.startswith('ESC'):
            fails.append(Fail('escape', got=st, exp='FormulaError or a formula', text=text, src='colon', feat='colon'))
        elif bad and st == 'VALID':
            fails.append(Fail('accepted-invalid', got=b[-1].get_expr, exp='rejected', text=text, src='colon', feat='colon-without-operand'))
    return result(n, list(oc), fails[:50])


# ---- text that does not start with '=': only a lone error literal is read as a formula
NOEQ_PREFIX = ['#REF!', '#N/A', '#DIV/0!', '#ref!', "'S'!#REF!", '1', 'A1', 'SUM(1)', '"s"', '', ' #NUM!', 'TRUE',
               # an array formula as the file stores it: the text ends at the brace that closes it
               '{=1}', '{=A1+1}', '{=SUM(1,{2})}', ' { = 1 }']
NOEQ_CHARS = CHARS + [' ', '=', 'x', '#']


def noeq_cases(tier):
    for i in range(len(NOEQ_PREFIX)):
        yield ['noeq', i]


def run_noeq(case):
    _, i = case
    pre = NOEQ_PREFIX[i]
    fails, oc, n = [], {}, 0
    for L in range(0, 4):
        for rest in itertools.product(NOEQ_CHARS, repeat=L):
            text = pre + ''.join(rest)
            brace = pre.lstrip().startswith('{')
            if text.lstrip().startswith('=') or (text.lstrip().startswith('{') and not brace):
                continue
            st, b = parse(text)
            n += 1
            oc[st] = oc.get(st, 0) + 1
            lone = ('#' in pre or brace) and ''.join(rest).strip() == ''       # white space around the literal / the braces is insignificant
            if st.startswith('ESC'):
                fails.append(Fail('escape', got=st, exp='FormulaError or a formula', text=text, src='noeq', feat='noeq'))
            elif st == 'VALID' and not lone:
                fails.append(Fail('accepted-invalid', got=b[-1].get_expr, exp='rejected (no leading =)', text=text, src='noeq', feat='noeq'))
    return result(n, list(oc), fails[:50])


# ---- a defined name spelled like a function that the same formula calls: both orders, same verdict
CLASH = [('SUM(1)', 'SUM'), ('{1}', 'ARRAY'), ('{1,2}', 'ARRAYROW'), ('F(1)', 'F'), ('PI()', 'PI'), ('IF(TRUE,1,2)', 'IF'), ('SUM(SUM(1))', 'SUM'), ('NA()', 'NA'),
         ('F(F(1),2)', 'F'), ('-SUM(1)', 'SUM')]


def clash_cases(tier):
    for i in range(len(CLASH)):
        yield ['clash', i]


def run_clash(case):
    _, i = case
    install_probe()
    call, name = CLASH[i]
    fails, oc, n = [], {}, 0
    for tpl in ('%s+%s', '%s&%s', 'F(%s,%s)', '{1}+%s*%s', 'IF(%s=1,%s,0)', '(%s)-(%s)', '%s %s'):
        verdicts = {}
        for order in ((call, name), (name, call)):
            text = '=' + tpl % order
            st, b = parse(text)
            n += 1
            oc[st] = oc.get(st, 0) + 1
            verdicts[order] = st
            if st.startswith('ESC'):
                fails.append(Fail('escape', got=st, exp='FormulaError or a formula', text=text, src='clash', feat=name))
        if tpl != '%s %s' and len(set(verdicts.values())) > 1:
            fails.append(Fail('order-dependent-verdict', got=str(sorted(verdicts.values())), exp='same verdict in both orders', text='=' + tpl % (call, name), src='clash', feat=name))
    return result(n, list(oc), fails)


# ---- an error literal qualified by a sheet: only a sheet name may stand before the '!'
TOKE = ['1', '"s"', 'A1', 'TRUE', '#N/A', 'F(', '(', ')', '{', '}', ',', ';', '+', '-', '*', '%', '~', '?', "'S x'", '#REF!']
ERRS = ['#REF!', '#DIV/0!', '#N/A']


def errsheet_cases(tier):
    for L in range(1, 4 if tier == 'quick' else 5):
        for i in range(len(TOKE)):
            yield ['errsheet', L, i]


def run_errsheet(case):
    _, L, i = case
    install_probe()
    fails, oc, n = [], {}, 0
    for rest in itertools.product(TOKE, repeat=L - 1):
        toks = [TOKE[i]] + list(rest)
        for noeq in (False, True):
            for err in (ERRS if L < 3 else ERRS[:1]):
                # the qualified literal stands where a plain error literal would: same verdict as with '#N/A' there, when a sheet name precedes the '!'
                if toks[-1] in ('A1', 'TRUE', "'S x'"):
                    if any(t in ('~', '?', "'S x'", '#REF!') for t in toks[:-1]):
                        exp = 'INVALID' if any(t in ('~', '?') for t in toks[:-1]) else 'UNSPEC'
                    else:
                        _, exp, _, _ = judge_tokens(toks[:-1] + ['#N/A'], '')
                        if len(toks) > 1 and toks[-1] != "'S x'" and (toks[-2] in ALNUM_END or toks[-2] in ('#N/A', '"s"')):
                            exp = 'SKIP'
                        elif exp == 'INVALID' and judge_tokens(toks[:-1] + ['A1'], '')[1] != 'INVALID':
                            exp = 'UNSPEC'      # where a reference may stand but a constant may not (a union): the qualified literal is a broken reference
                else:
                    exp = 'INVALID'         # a number, text, bracket, operator or error literal is not a sheet name
                if any((a in ALNUM_END and b in ALNUM_START) or (a == b == "'S x'") for a, b in zip(toks, toks[1:])):
                    exp = 'SKIP'            # adjacent tokens that lex as one word (A1 1 -> sheet A11; 'S x''S x' -> one quoted name)
                if noeq and exp != 'SKIP':
                    exp = 'VALID' if (L == 1 and exp == 'VALID') else 'INVALID'       # without '=' only a lone error literal is a formula
                if exp in ('SKIP', 'UNSPEC'):
                    oc[exp] = oc.get(exp, 0) + 1
                    continue
                text = ('' if noeq else '=') + ''.join(toks) + '!' + err
                st, b = parse(text)
                n += 1
                k = '%s/%s' % (exp, st)
                oc[k] = oc.get(k, 0) + 1
                if st.startswith('ESC'):
                    fails.append(Fail('escape', got=st, exp='FormulaError or a formula', text=text, src='errsheet', feat='errsheet'))
                elif exp == 'INVALID' and st == 'VALID':
                    fails.append(Fail('accepted-invalid', got=b[-1].get_expr, exp='rejected', text=text, src='errsheet', feat='errsheet'))
                elif exp == 'VALID' and st == 'INVALID':
                    fails.append(Fail('rejected-valid', got=st, exp=exp, text=text, src='errsheet', feat='errsheet', signrun=G.has_sign_run(text)))
    return result(n, list(oc), fails[:50])


def arrshape_cases(tier):
    """array constants by the widths of their rows: rectangular ones are formulas, ragged ones are not (whatever row is the odd one)."""
    for nrows in range(1, 5 if tier == 'quick' else 6):
        yield ['arrshape', nrows, 3 if tier == 'quick' else 4]


def run_arrshape(case):
    _, nrows, wmax = case
    install_probe()
    fails, oc, n = [], {}, 0
    elems = ['1', '"a"', 'TRUE', '#N/A', '-2']
    for widths in itertools.product(range(1, wmax + 1), repeat=nrows):
        k = 0
        rows = []
        for w in widths:
            rows.append(','.join(elems[(k + j) % len(elems)] for j in range(w)))
            k += w
        arr = '{' + ';'.join(rows) + '}'
        exp = 'VALID' if len(set(widths)) == 1 else 'INVALID'
        for text in ('=' + arr, '=SUM(' + arr + ')', '=1+' + arr, '=SUM(A1,' + arr + ')'):
            st, b = parse(text)
            n += 1
            key = '%s/%s' % (exp, st)
            oc[key] = oc.get(key, 0) + 1
            if st.startswith('ESC'):
                fails.append(Fail('escape', got=st, exp='FormulaError or a formula', text=text, src='arrshape', feat='arrshape'))
            elif exp == 'INVALID' and st == 'VALID':
                fails.append(Fail('accepted-invalid', got=b[-1].get_expr, exp='rejected', text=text, src='arrshape', feat='arrshape'))
            elif exp == 'VALID' and st == 'INVALID':
                fails.append(Fail('rejected-valid', got=st, exp=exp, text=text, src='arrshape', feat='arrshape', signrun=G.has_sign_run(text)))
    return result(n, list(oc), fails[:50])


def run_case(case):
    return {'arrshape': run_arrshape, 'errsheet': run_errsheet, 'soup': run_soup, 'raw': run_raw, 'edit': run_edit, 'num': run_num, 'juxta': run_juxta, 'special': run_special,
            'colon': run_colon, 'noeq': run_noeq, 'clash': run_clash}[case[0]](case)


def run(ctx):
    ctx.explore(run_case, soup_cases(ctx.tier), chunksize=4, label='token_soup_chunks')
    ctx.explore(run_case, raw_cases(ctx.tier), chunksize=1, label='raw_string_chunks')
    ctx.explore(run_case, edit_cases(ctx.tier), chunksize=4, label='edited_formulas')
    ctx.explore(run_case, numeral_cases(ctx.tier), chunksize=2, label='numeral_chunks')
    ctx.explore(run_case, juxta_cases(ctx.tier), chunksize=1, label='juxtaposed_operands')
    ctx.explore(run_case, special_cases(ctx.tier), chunksize=1, label='special_reference_and_error_tokens')
    ctx.explore(run_case, colon_cases(ctx.tier), chunksize=2, label='range_operator_as_a_token')
    ctx.explore(run_case, noeq_cases(ctx.tier), chunksize=1, label='text_without_leading_equal_sign')
    ctx.explore(run_case, errsheet_cases(ctx.tier), chunksize=1, label='sheet_qualified_error_literals')
    ctx.explore(run_case, clash_cases(ctx.tier), chunksize=1, label='names_spelled_like_called_functions')
    ctx.explore(run_case, arrshape_cases(ctx.tier), chunksize=1, label='array_constants_by_row_widths')
    return {'strings_parsed': ctx.transitions}
