"""C12 The core function library matches its Excel definitions.
Engine E1: per function a domain table (value pool x spelling per argument
position), full product where small, default + <= 2 deviating positions
otherwise; aggregations over every ordered content of length <= 3 in every
argument form.  Oracle: ref/funcs.py, audited at start-up against test.xlsx."""
import sys, itertools
import itertools
from mc.core import Fail, result
from ref.values import *
from ref import funcs as F

MANIFEST = {
    'engine': 'E1',
    'technique': 'bounded exhaustive enumeration of per-function argument domains on the real code vs reference definitions audited against Excel-computed values',
    'text': 'Text functions are also run on text holding tabs, line feeds, CR LF, no-break and em spaces (typed and referenced); SUMPRODUCT on every pair of 1-D/2-D block shapes incl. equal cell counts in different shapes. ' 'Each of the ~100 listed worksheet functions is executed through Cell.compile on its whole domain table: every value of a fixed pool '
            '(13 numbers incl. 1.15, 2.675, 1.005, 1E+15, 1E-7; 7 texts; logicals; blank; the 7 errors) in both spellings (typed / referenced cell) '
            'per argument, digits -2..3, positions -1..len+1, optional arguments present and absent - full product where <= 4000 tuples, else a default '
            'tuple with <= 2 deviating positions - and, for aggregations, every ordered content of length <= 3 over {number, logical, text, blank, error} '
            'as range, single cells, typed arguments, array literal and mixed.  Results are compared with ref/funcs.py (exact kind; 1e-9 for '
            'transcendental and STDEV/VAR, 1e-12 otherwise).  Exhaustive within these tables, nothing sampled.',
    'note': 'Trusted: ref/funcs.py, which agrees with all 1659 Excel-cached corpus formulas it covers (ref/funcs_audit.py, run at every start); '
            'cases the oracle leaves open (ASSUMPTIONS) are skipped or multi-answered; values outside the pools are not decided.',
}
RULE = ('per function: product (or default + <=2 deviations) of the per-position alphabets of its domain table; aggregations: all distinct '
        'orderings of every kind-multiset of length <=3 per argument form; non-trivial = executed on the implementation and decided by the oracle; '
        'distinct = distinct (function, argument descriptors) key')
ASSUMPTIONS = [
    'oracle ref/funcs.py is my reading of the Excel documentation, audited against the cached values of test.xlsx (5 sheets, every covered formula agrees)',
    'numbers are compared to 1e-12 relative (rounding family: Excel itself returns 0.30000000000000004 for ROUNDUP(0.234,1)), 1e-9 for transcendental functions and STDEV/VAR',
    'left open (skipped): numeric text inside referenced ranges/arrays for aggregations; date- or locale-like text; LOG base 1; MOD with |n/d| >= 2^27 or a quotient '
    'within rounding of an integer; directly typed text in AND/OR/XOR; text "TRUE"/"FALSE" as a condition; SWITCH with blank subject, error keys or case-only text '
    'differences; logical instance_num of SUBSTITUTE; omitted (empty) arguments other than IF branches; multi-cell arguments in scalar positions (C05)',
    'multi-answer: CEILING/FLOOR of a negative number with positive significance (value or #NUM!), FLOOR(0,0) (0 or #DIV/0!), circular functions from 2^27 on (number or #NUM!), '
    'POWER of a negative base with fractional exponent (#NUM! or a real root) and on underflow (0 or #NUM!), FIND/SEARCH of "" just past the end, '
    'non-numeric text together with an error argument (#VALUE! or the error), an earlier domain error together with a later error argument, '
    'array-vs-k error in LARGE/SMALL, several different errors in SUMPRODUCT/TEXTJOIN head arguments, numbers between 1E-10 and 1E-4 converted to text (fixed or scientific)',
    'a formula whose result is a blank reference shows 0',
    'argument values outside the pools are not decided',
]

ERRV = [('e', e) for e in ERRS]
NUMS = [0, 1, -1, 2, -2, 2.5, -2.5, 0.5, 1.15, 2.675, 1.005, 1e15, 1e-7]
TEXTS = ['', 'a', 'abc', 'AbC', ' a  b ', '3', 'x,y']
NUMS_T = [3, -0.5, 1.5, 3.5, -1.15, 0.1, 0.285, 1.255, 10, 123.456, 1e10, 0.001, 5.5, -2.675]
TEXTS_T = ['A', 'b', '  ', 'abcabc', '-2.5', 'ab c']


def both(vals, blank=True):
    return [['v', list(v)] for v in vals] + [['c', list(v)] for v in vals] + ([['c', list(BLANK)]] if blank else [])


def typed(*vals):
    return [['v', list(v)] for v in vals]


def pools(tier):
    t = tier == 'thorough'
    nums = [N(x) for x in NUMS + (NUMS_T if t else [])]
    texts = [T(s) for s in TEXTS + (TEXTS_T if t else [])]
    P = {}
    P['G'] = both(nums + texts + [B(True), B(False)] + ERRV)
    extra = [T('2'), T('a'), B(True), NA, DIV]
    P['DIG'] = both([N(d) for d in (-2, -1, 0, 1, 2, 3)] + extra)
    P['SIG'] = both([N(s) for s in (-2, -1, 0, 1, 2, 3, 0.5)] + extra)
    P['POS'] = both([N(p) for p in (-1, 0, 1, 2, 3, 4, 6, 7, 1.9)] + [T('2'), T('a'), B(True), NA])
    P['RES'] = typed(N(1), T('x'), NA, B(True)) + [['c', list(BLANK)], ['c', list(N(2.5))], ['c', list(DIV)]]
    P['RESO'] = P['RES'] + [['omit']]
    P['RES3'] = typed(N(1), NA) + [['c', list(BLANK)]]
    P['COND'] = both([B(True), B(False), N(0), N(2.5), T('a'), T('3'), T(''), NA, DIV])
    P['SV'] = both([N(1), N(2.5), N(0), T('a'), T('abc'), T('AbC'), T('3'), T(''), B(True), B(False), NA, DIV])
    P['KEY'] = typed(N(1), N(3), T('a'), T('abc'), B(True), N(0), T(''), NA) + [['c', list(N(2.5))], ['c', list(T('3'))], ['c', list(DIV)]]
    P['DELIM'] = both([T(','), T(''), T('ab'), N(1), B(True), NA])
    P['IGN'] = both([B(True), B(False), N(0), N(1), NA])
    return P


ONE_ARG = ('ABS INT SIGN SQRT EXP LN LOG10 EVEN ODD SIN COS TAN ASIN ACOS ATAN SINH COSH TANH ASINH ACOSH ATANH DEGREES RADIANS '
           'COT SEC CSC ACOT NOT ISBLANK ISERR ISERROR ISNA ISNUMBER ISTEXT ISNONTEXT ISLOGICAL ISEVEN ISODD LEN UPPER LOWER TRIM VALUE').split()
V = lambda v: ['v', list(v)]
# name -> (alphabet names per position, default tuple, allowed arities)
TABLE = {n: (['G'], [V(N(1))], [1]) for n in ONE_ARG}
TABLE.update({
    'LOG': (['G', 'G'], [V(N(2)), V(N(2))], [1, 2]),
    'TRUNC': (['G', 'DIG'], [V(N(1.15)), V(N(1))], [1, 2]),
    'ROUND': (['G', 'DIG'], [V(N(1.15)), V(N(1))], [2]),
    'ROUNDUP': (['G', 'DIG'], [V(N(1.15)), V(N(1))], [2]),
    'ROUNDDOWN': (['G', 'DIG'], [V(N(1.15)), V(N(1))], [2]),
    'CEILING': (['G', 'SIG'], [V(N(1.15)), V(N(1))], [2]),
    'FLOOR': (['G', 'SIG'], [V(N(1.15)), V(N(1))], [2]),
    'POWER': (['G', 'G'], [V(N(2)), V(N(2))], [2]),
    'MOD': (['G', 'G'], [V(N(2)), V(N(2))], [2]),
    'ATAN2': (['G', 'G'], [V(N(2)), V(N(2))], [2]),
    'IF': (['G', 'RESO', 'RESO'], [V(B(True)), V(N(1)), V(N(1))], [2, 3]),
    'IFS': (['COND', 'RES3', 'COND', 'RES3'], [V(B(False)), V(N(1)), V(B(True)), V(N(1))], [2, 4]),
    'SWITCH': (['SV', 'KEY', 'RES3', 'KEY', 'RES3', 'RES3'], [V(N(1)), V(N(3)), V(N(1)), V(N(1)), V(NA), V(N(1))], [3, 4, 5, 6]),
    'IFERROR': (['G', 'G'], [V(NA), V(N(1))], [2]),
    'IFNA': (['G', 'G'], [V(NA), V(N(1))], [2]),
    'LEFT': (['G', 'POS'], [V(T('abc')), V(N(2))], [1, 2]),
    'RIGHT': (['G', 'POS'], [V(T('abc')), V(N(2))], [1, 2]),
    'MID': (['G', 'POS', 'POS'], [V(T('abc')), V(N(2)), V(N(2))], [3]),
    'REPLACE': (['G', 'POS', 'POS', 'G'], [V(T('abc')), V(N(2)), V(N(1)), V(T('x,y'))], [4]),
    'FIND': (['G', 'G', 'POS'], [V(T('a')), V(T(' a  b ')), V(N(1))], [2, 3]),
    'SEARCH': (['G', 'G', 'POS'], [V(T('a')), V(T(' a  b ')), V(N(1))], [2, 3]),
    'SUBSTITUTE': (['G', 'G', 'G', 'POS'], [V(T(' a  b ')), V(T('a')), V(T('x,y')), V(N(1))], [3, 4]),
    'CONCATENATE': (['G', 'G', 'G'], [V(T('a')), V(N(1)), V(T('x,y'))], [1, 2, 3]),
    'CONCAT': (['G', 'G', 'G'], [V(T('a')), V(N(1)), V(T('x,y'))], [1, 2, 3]),
    'TEXTJOIN': (['DELIM', 'IGN', 'G', 'G'], [V(T(',')), V(B(True)), V(T('a')), V(T(''))], [3, 4]),
})
FULL_LIMIT = 4000
LIGHT = {('CONCAT', 3), ('CONCATENATE', 3), ('SUBSTITUTE', 4), ('TEXTJOIN', 4), ('FIND', 3), ('SEARCH', 3)}
GROUP = {}
for _n in 'IF IFS SWITCH AND OR XOR NOT IFERROR IFNA'.split():
    GROUP[_n] = 'logical'
for _n in 'LEN LEFT RIGHT MID UPPER LOWER TRIM CONCAT CONCATENATE FIND SEARCH REPLACE SUBSTITUTE TEXTJOIN VALUE'.split():
    GROUP[_n] = 'text'
for _n in ('SUM PRODUCT SUMSQ SUMPRODUCT AVERAGE MIN MAX COUNT COUNTA COUNTBLANK MEDIAN LARGE SMALL STDEV STDEVP STDEV.S STDEV.P VAR VARP VAR.S VAR.P '
           'STDEVA STDEVPA VARA VARPA').split():
    GROUP[_n] = 'agg'


def group(name):
    return GROUP.get(name) or ('info' if name.startswith('IS') else 'math')


def deviations(default, alphabets, k):
    """every tuple differing from `default` in at most k positions"""
    n = len(default)
    for j in range(k + 1):
        for pos in itertools.combinations(range(n), j):
            alts = [[a for a in alphabets[p] if a != default[p]] for p in pos]
            for choice in itertools.product(*alts):
                t = list(default)
                for p, c in zip(pos, choice):
                    t[p] = c
                yield t


def scalar_cases(tier):
    P = pools(tier)
    for name in sorted(TABLE):
        alph, default, arities = TABLE[name]
        for n in arities:
            al = [P[a] for a in alph[:n]]
            size = 1
            for a in al:
                size *= len(a)
            if size <= FULL_LIMIT or n <= 2:
                it = (list(t) for t in itertools.product(*al))
            else:
                # quick: the widest tables (already covered pairwise by the shorter arity) deviate in one position only
                it = deviations(default[:n], al, 1 if tier == 'quick' and (name, n) in LIGHT else 2)
            for args in it:
                if name in ('IF', 'SWITCH') and args[-1] == ['omit']:
                    continue                    # a trailing empty argument is spelled by the shorter arity
                yield [name, args]


# ---- text functions on text holding white space other than the space character (tab, line feed, no-break space) ----
WS_TEXTS = ['a\tb', ' a\n b ', '\xa0a\xa0', 'a \t b', '\ta', 'a\n', ' \xa0 ', '  a   b  ', ' ', 'a\r\nb', '\u2003a\u2003', ' 3 ', '3\t']
WS_FUNCS = {'TRIM': [], 'LEN': [], 'UPPER': [], 'LOWER': [], 'VALUE': [], 'LEFT': [V(N(2))], 'RIGHT': [V(N(2))], 'MID': [V(N(2)), V(N(2))],
            'FIND': None, 'SEARCH': None, 'SUBSTITUTE': [V(T(' ')), V(T('_'))], 'CONCAT': [V(T('|'))], 'REPLACE': [V(N(1)), V(N(1)), V(T('x'))]}


def ws_cases(tier):
    for name, rest in WS_FUNCS.items():
        for t in WS_TEXTS:
            for k in ('v', 'c'):
                if rest is None:
                    for needle in (' ', '\t', '\xa0', 'b'):
                        yield [name, [[k, list(T(needle))], [k, list(T(t))]]]
                else:
                    yield [name, [[k, list(T(t))]] + rest]
    for t in WS_TEXTS:              # TRIM composed: LEN(TRIM(x)) is spelled by the cell form of LEN over a computed text is not expressible here; TRIM twice is
        yield ['TEXTJOIN', [V(T(',')), V(B(True)), ['c', list(T(t))], ['v', list(T(t))]]]


# ---- aggregations: ordered contents of length <= 3 ---------------------------
OCC = {'n': [N(3), N(1.5), N(-2)], 'b': [B(True), B(False), B(True)], 't': [T('x'), T('abc'), T('')],
       'nt': [T('2'), T('0.5'), T('-1')], 'blank': [BLANK] * 3, 'e': [NA, DIV, VALUE]}
KINDS = {'range': ['n', 'b', 't', 'blank', 'e'], 'typed': ['n', 'b', 't', 'nt', 'e'], 'array': ['n', 'b', 't', 'e']}


def contents(kinds, maxlen=3):
    """all distinct orderings of every multiset of kinds; the k-th item of a kind has its own value"""
    for L in range(1, maxlen + 1):
        for ms in itertools.combinations_with_replacement(kinds, L):
            seen = {}
            items = []
            for k in ms:
                items.append(OCC[k][seen.get(k, 0)])
                seen[k] = seen.get(k, 0) + 1
            for perm in sorted(set(itertools.permutations(items)), key=repr):
                yield [list(v) for v in perm]


def forms(tier):
    """(form name, [argument lists])"""
    out = {}
    rng = list(contents(KINDS['range']))
    out['range'] = [[['r', [c]]] if len(c) > 1 else [['c', c[0]]] for c in rng]
    out['cells'] = [[['c', v] for v in c] for c in rng if len(c) > 1]
    out['typed'] = [[['v', v] for v in c] for c in contents(KINDS['typed'])]
    out['array'] = [[['a', [c]]] for c in contents(KINDS['array'])]
    out['mixed'] = [[['r', [c[:-1]]] if len(c) > 2 else ['c', c[0]], ['v', c[-1]]] for c in rng if len(c) > 1 and c[-1] != list(BLANK)]
    out['col'] = [[['r', [[v] for v in c]]] for c in rng if len(c) > 1]
    # repeated values (the k-th largest counts repetitions; MEDIAN/VAR of equal values)
    dups = [[list(N(x)) for x in d] for d in ([100000001, 100000002, 100000003], [1000000.1, 1000000.2, 1000000.3], [1e15, 1e15 + 2, 1e15 + 4], [3, 3, 1, 2], [5, 1, 1, 4], [2.5, 2.5, 2.5], [1, 1], [2, 1, 2, 1, 2], [0, 0, -1, -1], [7, 7, 7, 8])]
    out['range'] += [[['r', [c]]] for c in dups]
    out['array'] += [[['a', [c]]] for c in dups]
    out['col'] += [[['r', [[v] for v in c]]] for c in dups]
    return out


STD = 'SUM PRODUCT SUMSQ AVERAGE MIN MAX MEDIAN COUNT COUNTA STDEV STDEVP STDEV.S STDEV.P VAR VARP VAR.S VAR.P'.split()
AFUN = 'STDEVA STDEVPA VARA VARPA'.split()
KPOOL = typed(N(0), N(1), N(2), N(3), N(4), N(5), N(6), N(1.5), T('2'), T('a'), B(True), NA) + [['c', list(BLANK)], ['c', list(N(2))]]


def agg_cases(tier):
    Fm = forms(tier)
    std_forms = ['range', 'cells', 'typed', 'array', 'mixed', 'col']
    for name in STD + ['AND', 'OR', 'XOR', 'CONCAT']:
        for f in std_forms:
            for args in Fm[f]:
                yield [name, args]
    for name in AFUN:
        for f in ('range', 'cells', 'typed', 'mixed', 'col'):
            for args in Fm[f]:
                yield [name, args]
    for f in ('range', 'col'):
        for args in Fm[f]:
            yield ['COUNTBLANK', args]
    for ign in (True, False):
        for f in std_forms:
            for args in Fm[f]:
                yield ['TEXTJOIN', [V(T(',')), V(B(ign))] + args]
    for name in ('LARGE', 'SMALL'):
        for f in ('range', 'array', 'col'):
            for args in Fm[f]:
                for k in KPOOL:
                    yield [name, args + [k]]
    partner = [N(2), N(4), N(5), N(7), N(3), N(6), N(9)]
    for f in ('range', 'array', 'col'):
        for args in Fm[f]:
            a = args[0]
            yield ['SUMPRODUCT', [a]]
            if a[0] == 'c':
                shapes = [['c', list(partner[0])]]
            else:
                rows, cols = len(a[1]), len(a[1][0])
                mk = lambda n: [[list(partner[i]) for i in range(n)]] if rows == 1 else [[list(partner[i])] for i in range(n)]
                shapes = [[a[0], mk(max(rows, cols))], [a[0], mk(max(rows, cols) + 1)]]
                if max(rows, cols) > 1:           # same number of cells, other orientation: a shape mismatch all the same
                    n = max(rows, cols)
                    shapes.append([a[0], [[list(partner[i]) for i in range(n)]] if rows != 1 else [[list(partner[i])] for i in range(n)]])
            for p in shapes:
                yield ['SUMPRODUCT', [a, p]]
                yield ['SUMPRODUCT', [p, a]]
    # two-dimensional blocks: equal shape, transposed shape (equal cell count), different shape
    blk = lambda r, c, off=0: [[list(N(float(off + i * c + j + 1))) for j in range(c)] for i in range(r)]
    for kind in ('r', 'a'):
        for (r1, c1), (r2, c2) in itertools.product([(2, 3), (3, 2), (2, 2), (1, 4), (4, 1), (1, 6), (6, 1)], repeat=2):
            yield ['SUMPRODUCT', [[kind, blk(r1, c1)], [kind, blk(r2, c2, 10)]]]
        yield ['SUMPRODUCT', [[kind, blk(2, 3)], [kind, blk(2, 3, 10)], [kind, blk(3, 2, 20)]]]
        yield ['SUMPRODUCT', [[kind, blk(2, 3)], [kind, blk(2, 3, 10)], [kind, blk(2, 3, 20)]]]


# ---- execution --------------------------------------------------------------
def colname(n):
    s = ''
    while n:
        n, r = divmod(n - 1, 26)
        s = chr(65 + r) + s
    return s


def spell(name, args):
    """-> (formula text, inputs) or None when a value has no literal spelling"""
    parts, inputs = [], {}
    for i, a in enumerate(args):
        c0, k = 2 + 4 * i, a[0]
        if k == 'omit':
            parts.append('')
        elif k == 'v':
            s = literal(tuple(a[1]))
            if s is None:
                return None
            parts.append(s)
        elif k == 'c':
            ref = '%s1' % colname(c0)
            inputs[ref] = tuple(a[1])
            parts.append(ref)
        elif k == 'r':
            rows = a[1]
            ref = '%s1:%s%d' % (colname(c0), colname(c0 + len(rows[0]) - 1), len(rows))
            inputs[ref] = ('arr', [[tuple(v) for v in row] for row in rows])
            parts.append(ref)
        else:
            lits = [[literal(tuple(v)) for v in row] for row in a[1]]
            if any(s is None for row in lits for s in row):
                return None
            parts.append('{%s}' % ';'.join(','.join(row) for row in lits))
    return '=%s(%s)' % (name, ','.join(parts)), inputs


def short(v):
    v = tuple(v)
    if v[0] == 'n':
        return repr(v[1]).rstrip('0').rstrip('.') if v[1] == int(v[1]) and abs(v[1]) < 1e15 else repr(v[1])
    if v[0] == 't':
        return '"%s"' % v[1]
    if v[0] == 'b':
        return 'TRUE' if v[1] else 'FALSE'
    return v[1] if v[0] == 'e' else '_'


def describe(a):
    """(signature, values) of one argument, e.g. ('c.n', '1.15') / ('r.nbt', '3;TRUE;"x"')"""
    if a[0] == 'omit':
        return 'omit', ''
    vs = F.flat(tuple(a))
    return '%s.%s' % (a[0], ''.join(v[0][0] if v[0] != 'blank' else '_' for v in vs)), ';'.join(short(v) for v in vs)


def run_case(case):
    from xl.evalcell import eval_formula
    name, args = case
    exp = F.call(name, args)
    if exp is None:
        return result(0, ['skip:undecided'])
    sp = spell(name, args)
    if sp is None:
        return result(0, ['skip:unspellable'])
    text, inputs = sp
    got = eval_formula(text, inputs)
    oc = '%s:%s' % (group(name), got[1] if got[0] in ('e', 'BAD') else got[0])
    fails = []
    if not F.accepted(got, exp, F.tol(name)):
        d = [describe(a) for a in args]
        nexp = [e[1] for e in exp if e[0] == 'n' and e != F.ANYNUM]
        delta = '%.3g' % (got[1] - nexp[0]) if got[0] == 'n' and nexp else None
        fails.append(Fail('bad-value' if got[0] == 'BAD' else 'wrong-result', got=got, exp=sorted(map(str, exp)),
                          fn=name, group=group(name), sig=','.join(s for s, _ in d), vals='|'.join(v for _, v in d),
                          nargs=len(args), delta=delta, gotk=got[1] if got[0] in ('e', 'BAD') else got[0],
                          expk='/'.join(sorted({e[1] if e[0] == 'e' else e[0] for e in exp})), formula=text))
    return result(1, [oc], fails)


# ---- aggregations over the result of another function over a range (computed logical / numeric arrays) --------------
COMPOSE_AGG = ['COUNT', 'COUNTA', 'SUM', 'MAX', 'MIN', 'AVERAGE', 'MEDIAN', 'PRODUCT', 'SUMSQ', 'STDEV', 'VAR']     # LARGE/SMALL over computed logical arrays: not decided (Excel's treatment not certain)
COMPOSE_INNER = {
    'ISNUMBER(%s)': lambda v: B(v[0] == 'n'), 'ISTEXT(%s)': lambda v: B(v[0] == 't'), 'ISLOGICAL(%s)': lambda v: B(v[0] == 'b'),
    'ISBLANK(%s)': lambda v: B(v[0] == 'blank'), 'ISERROR(%s)': lambda v: B(v[0] == 'e'), 'NOT(ISNUMBER(%s))': lambda v: B(v[0] != 'n'),
    'ISNUMBER(%s)+0': lambda v: N(1.0 if v[0] == 'n' else 0.0), 'IF(ISNUMBER(%s),1,"t")': lambda v: N(1) if v[0] == 'n' else T('t'),
}
COMPOSE_CELLS = [N(3), T('x'), B(True), BLANK, ('e', '#N/A'), N(-1.5)]


def compose_cases(tier):
    for agg_ in COMPOSE_AGG:
        for inner in COMPOSE_INNER:
            for n in (1, 2, 3, 4):
                for combo in itertools.product(range(len(COMPOSE_CELLS)), repeat=n):
                    if tier == 'quick' and n == 4 and hash_free(combo) % 5:
                        continue
                    yield ['compose', agg_, inner, list(combo)]


def hash_free(combo):
    return sum((i + 1) * (x + 1) for i, x in enumerate(combo))


def run_compose(case):
    from xl.evalcell import eval_formula
    _, agg_, inner, combo = case
    vals = [COMPOSE_CELLS[i] for i in combo]
    arr = [[COMPOSE_INNER[inner](v)] for v in vals]
    args = [('a', arr)] + ([('v', N(1))] if agg_ in ('LARGE', 'SMALL') else [])
    exp = F.call(agg_, args)
    if exp is None:
        return result(0, ['skip:undecided'])
    ref = 'B1:B%d' % len(vals) if len(vals) > 1 else 'B1'
    text = '=%s(%s%s)' % (agg_, inner % ref, ',1' if agg_ in ('LARGE', 'SMALL') else '')
    inputs = {ref: ('arr', [[v] for v in vals])} if len(vals) > 1 else {'B1': vals[0]}
    got = eval_formula(text, inputs)
    fails = []
    if not F.accepted(got, exp, F.tol(agg_)):
        fails.append(Fail('bad-value' if got[0] == 'BAD' else 'wrong-result', got=got, exp=sorted(map(str, exp)), fn=agg_, group='compose', sig=inner,
                          vals='|'.join(str(v) for v in vals), nargs=1, gotk=got[1] if got[0] in ('e', 'BAD') else got[0],
                          expk='/'.join(sorted({e[1] if e[0] == 'e' else e[0] for e in exp})), formula=text))
    return result(1, ['compose:%s' % (got[1] if got[0] in ('e', 'BAD') else got[0])], fails)


_run_case_tables = run_case


def run_case(case):
    if case and case[0] == 'compose':
        return run_compose(case)
    return _run_case_tables(case)


def run(ctx):
    from ref import funcs_audit
    stats, bad = funcs_audit.audit()
    if bad:
        for b in bad[:20]:
            sys.stderr.write('HARNESS-ERROR oracle/Excel disagreement %s\n' % (b,))
        sys.exit(2)
    ctx.explore(run_case, scalar_cases(ctx.tier), chunksize=256, label='scalar domain tables')
    ctx.explore(run_case, agg_cases(ctx.tier), chunksize=256, label='aggregation contents x forms')
    ctx.explore(run_case, compose_cases(ctx.tier), chunksize=256, label='aggregation over computed arrays')
    ctx.explore(run_case, ws_cases(ctx.tier), chunksize=32, label='text functions on non-space white space')
    return {'functions': len(set(TABLE) | set(STD) | set(AFUN)) + 8, 'pool_size': len(pools(ctx.tier)['G']),
            'oracle_audit': {'formulas': stats['audited_formulas'], 'cells': stats['audited_cells'], 'disagreements': 0,
                             'undecided': stats['undecided'], 'per_function': stats['per_function']},
            'oracle_rules_not_audited': stats['not_audited'] + [
                'values of the pools that do not occur in the corpus (1.15, 2.675, 1.005, 1E+15, 1E-7 in the rounding family rest on the decimal rule)',
                'typed numeric text / logicals in aggregations beyond the corpus examples', 'SUBSTITUTE with instance_num', 'array-literal arguments of aggregations']}
