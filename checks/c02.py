"""C02 Operators implement Excel's scalar semantics for every kind of operand.
Engine E1: complete cross-product operator x pool x pool x spelling."""
import itertools
from mc.core import Fail, result
from ref.values import *
from ref import scalar as S

MANIFEST = {
    'engine': 'E1',
    'technique': 'bounded exhaustive enumeration of operator x operand-kind cross-product on the real code vs reference semantics',
    'text': 'Every one of the 12 binary and 3 unary operators is executed on the complete cross-product of a fixed operand pool '
            '(28 values quick / 77 thorough, covering every kind the statement names) in literal and cell spelling and compared '
            'with an independent reference; exhaustive within the pool, nothing sampled.' ' Later additions: unary operators nested in binary ones over the whole pool; every single + - * / and percent result compared exactly (bit for bit), ^ with a relative tolerance; a percent sweep; operand pairs with one side a reference and the other a literal; texts only Python reads as numbers (inf, nan, 1_000, 1e999) must not be numeric.',
    'note': 'Trusted: ref/scalar.py + ref/values.py (my reading of Excel, multi-answer where open); values outside the pool are not decided.',
}
RULE = ('every (operator, left operand, right operand, spelling) over the fixed value pool; '
        'a case is non-trivial when it was executed on the implementation; distinct = distinct case key')
ASSUMPTIONS = [
    'oracle ref/scalar.py is my reading of the C02 statement and of Excel; multi-answer where the statement is open '
    '(non-numeric text with an error operand; negative base with fractional exponent)',
    'operand values outside the pool are not decided',
]

ERRV = [('e', e) for e in ERRS]
POOL_Q = [
    (N(0), 'n:0'), (N(1), 'n'), (N(-1), 'n:neg'), (N(2), 'n'), (N(0.5), 'n:frac'), (N(-2.5), 'n:negfrac'),
    (N(0.1), 'n:frac'), (N(3), 'n'), (N(1e200), 'n:huge'), (N(1e-200), 'n:tiny'), (N(-1e200), 'n:huge'),
    (T('3'), 't:num'), (T(' 3 '), 't:pad'), (T('-2.5'), 't:num'), (T('abc'), 't:alpha'), (T('ABC'), 't:alpha'),
    (T(''), 't:empty'), (T('1E+2'), 't:num'), (T('1e3'), 't:num'), (T('7.'), 't:num'), (T(' 2.5E2 '), 't:pad'), (T('.5'), 't:num'),
    # text that Python's float() reads but Excel does not, and an exponent that overflows a double
    (T('inf'), 't:pyfloat'), (T('nan'), 't:pyfloat'), (T('1_0'), 't:pyfloat'), (T('-Infinity'), 't:pyfloat'), (T('1E+999'), 't:overflow'),
    (B(True), 'b'), (B(False), 'b'), (BLANK, 'blank'),
] + [(e, 'e') for e in ERRV]
EXTRA_T = [
    (N(x), 'n:x') for x in (
        1e308, -1e308, 1.7976931348623157e308, 5e-324, 2.2250738585072014e-308, 1e154, 1e155, -1e154, 1e-154,
        1e-160, 9007199254740992.0, 9007199254740993.0, 9007199254740991.0, 4503599627370496.5, 2.5, 1.5, -0.5, -1.5,
        1e15, 1e15 + 2, 123456789012345.0, 1234567890123456.0, 0.1 + 0.2, 1 / 3.0, 2 / 3.0, 100.0, 1024.0, 709.0,
        710.0, -745.0, 1e-5, 12345.678, -3.0, 4.0, 1e21, 1e-7, 0.000123)
] + [(T('abd'), 't:alpha'), (T('Abc'), 't:alpha'), (T('a'), 't:alpha'), (T(' '), 't:space'), (T('0'), 't:num'),
     (T('1e2'), 't:num'), (T('.5'), 't:num'), (T('+3'), 't:num'), (T('TRUE'), 't:alpha'), (T('Z'), 't:alpha'),
     (T('z'), 't:alpha'), (T('3abc'), 't:alpha')]
UNARY = ['u-', 'u+', '%']


def pool(tier):
    return POOL_Q + (EXTRA_T if tier == 'thorough' else [])


def cases(tier):
    P = pool(tier)
    n = len(P)
    for op in S.BINOPS:
        for i in range(n):
            for j in range(n):
                for mode in ('lit', 'cell'):
                    yield [tier, op, i, j, mode]
                # one operand in a cell, the other typed (an error / a blank on either side)
                if P[i][0][0] in ('e', 'blank') or P[j][0][0] in ('e', 'blank') or tier == 'thorough':
                    yield [tier, op, i, j, 'cell-lit']
                    yield [tier, op, i, j, 'lit-cell']
    for op in UNARY:
        for i in range(n):
            for mode in ('lit', 'cell', 'paren'):
                yield [tier, op, i, None, mode]


def build(case):
    tier, op, i, j, mode = case
    P = pool(tier)
    a, ta = P[i]
    b, tb = P[j] if j is not None else (None, None)
    inputs = {}
    if mode in ('cell-lit', 'lit-cell'):
        la, lb = literal(a), literal(b)
        if (mode == 'lit-cell' and la is None) or (mode == 'cell-lit' and lb is None):
            return None
        sa, sb = ('B1', lb) if mode == 'cell-lit' else (la, 'C1')
        inputs['B1' if mode == 'cell-lit' else 'C1'] = a if mode == 'cell-lit' else b
        sa = '(%s)' % sa if sa.startswith('-') else sa
        sb = '(%s)' % sb if sb.startswith('-') else sb
    elif mode == 'cell':
        sa, sb = 'B1', 'C1'
        inputs['B1'] = a
        if b is not None:
            inputs['C1'] = b
    else:
        sa = literal(a)
        sb = literal(b) if b is not None else None
        if sa is None or (b is not None and sb is None):
            return None
        # a negative literal as a left operand of ^ or % would bring C01's
        # sign rules in; write it parenthesised so only the operator is judged
        if sa.startswith('-'):
            sa = '(%s)' % sa
        if sb is not None and sb.startswith('-'):
            sb = '(%s)' % sb
    if j is None:
        if mode == 'paren':
            sa = '(%s)' % sa
        f = {'u-': '=-%s', 'u+': '=+%s', '%': '=%s%%'}[op] % sa
        exp = S.unary(op, a)
    else:
        f = '=%s%s%s' % (sa, op, sb)
        exp = S.binary(op, a, b)
    return f, inputs, exp, a, b, ta, tb


def run_case(case):
    from xl.evalcell import eval_formula
    bt = build(case)
    if bt is None:
        return result(0, ['skip:blank-literal'])
    f, inputs, exp, a, b, ta, tb = bt
    got = eval_formula(f, inputs)
    op, mode = case[1], case[4]
    oc = '%s:%s' % ('cmp' if op in S.CMP else op, got[0] if got[0] != 'e' else got[1])
    fails = []
    # + - * / % and the unary minus are single IEEE operations: the result is exact, not "close"; only ^ keeps a tolerance
    if not S.accepted(got, exp, 1e-12 if op == '^' else 0.0):
        cls = 'bad-value' if got[0] == 'BAD' else 'wrong-result'
        fails.append(Fail(cls, got=got, exp=sorted(map(str, exp)), op=op, a=ta, b=tb, ak=a[0], bk=b[0] if b else None,
                          mode=mode, gotk=got[0] if got[0] != 'BAD' else got[1], formula=f,
                          av=a[1] if len(a) > 1 else None, bv=b[1] if b and len(b) > 1 else None))
    return result(1, [oc], fails)


_VALS = [v for v, _ in POOL_Q]
SHARED_J = [_VALS.index(v) for v in (N(0), N(1), T('3'), T('abc'), B(True), BLANK, ERRV[0])]


# ---- x% for every integer and every tenth up to 2000: one IEEE division by 100, exactly
def percent_cases(tier):
    for lo in range(-2000, 2000, 250):
        yield ['pct', lo, lo + 250]


def run_percent(case):
    from xl.evalcell import eval_formula
    _, lo, hi = case
    fails, n = [], 0
    for k in range(lo * 10, hi * 10):
        x = k / 10.0
        for f, inputs in (('=B1%', {'B1': N(x)}), ('=(%r)%%' % x, {})):
            if k % 10 and inputs == {}:
                continue
            got = eval_formula(f, inputs)
            n += 1
            if got != N(x / 100.0):
                fails.append(Fail('wrong-result', got=got, exp=[str(N(x / 100.0))], op='%', a='n:sweep', b=None, ak='n', bk=None, mode='cell' if inputs else 'lit',
                                  gotk=got[0], formula=f, av=x, bv=None))
    return result(n, ['pct:sweep'], fails[:10])


# ---- a unary operator inside another operator: what the unary operator returns is what the outer operator sees -------------
def nested_unary_cases(tier):
    for u in UNARY:
        for op in S.BINOPS:
            for i in range(len(POOL_Q)):
                for j in SHARED_J:
                    for side in (0, 1):
                        yield ['nested', u, op, i, j, side]


def run_nested(case):
    from xl.evalcell import eval_formula
    _, u, op, i, j, side = case
    (a, ta), (b, tb) = POOL_Q[i], POOL_Q[j]
    first = S.unary(u, a)
    if S.REALROOT in first:
        return result(0, ['skip:open-first-step'])
    ua = {'u-': '(-B1)', 'u+': '(+B1)', '%': '(B1%)'}[u]
    f = '=%s%s%s' % ((ua, op, 'C1') if side == 0 else ('C1', op, ua))
    exp = set()
    for m in first:
        exp |= S.binary(op, m, b) if side == 0 else S.binary(op, b, m)
    got = eval_formula(f, {'B1': a, 'C1': b})
    fails = []
    if not S.accepted(got, exp):
        fails.append(Fail('shared-operand', got=got, exp=sorted(map(str, exp)), op=u + ' inside ' + op, a=ta, b=tb, ak=a[0], bk=b[0], mode='cell',
                          gotk=got[0] if got[0] != 'BAD' else got[1], formula=f, av=a[1] if len(a) > 1 else None, bv=b[1] if len(b) > 1 else None))
    return result(1, ['nested:%s' % (got[0] if got[0] != 'e' else got[1])], fails)


# ---- one operand used twice: an operator must not alter what the next operator sees ------------------------
def shared_cases(tier):
    n = len(POOL_Q)
    for op1 in S.ARITH + ['&', '=']:
        for op2 in ('&', '=', '<', '+'):
            for i in range(n):
                for j in SHARED_J:        # 0, 1, "3", "abc", TRUE, blank, an error
                    yield ['shared', op1, op2, i, j]


def run_shared(case):
    from xl.evalcell import eval_formula
    _, op1, op2, i, j = case
    (a, ta), (b, tb) = POOL_Q[i], POOL_Q[j]
    fails, oc, n = [], [], 0
    # (B1 op1 C1) op2 B1  and  B1 op2 (B1 op1 C1): the second use of B1 must see the original value
    first = S.binary(op1, a, b)
    if len(first) != 1 or S.REALROOT in first:
        return result(0, ['skip:open-first-step'])
    (m,) = first
    for f, exp in (('=(B1%sC1)%sB1' % (op1, op2), S.binary(op2, m, a)), ('=B1%s(B1%sC1)' % (op2, op1), S.binary(op2, a, m)),
                   ('=(B1%sC1)%sC1' % (op1, op2), S.binary(op2, m, b))):
        got = eval_formula(f, {'B1': a, 'C1': b})
        n += 1
        oc.append('shared:%s' % (got[0] if got[0] != 'e' else got[1]))
        if not S.accepted(got, exp):
            fails.append(Fail('shared-operand', got=got, exp=sorted(map(str, exp)), op=op1 + ' then ' + op2, a=ta, b=tb, ak=a[0], bk=b[0], mode='cell',
                              gotk=got[0] if got[0] != 'BAD' else got[1], formula=f))
    return result(n, sorted(set(oc)), fails)


_run_single = run_case


def run_case(case):
    if case[0] == 'nested':
        return run_nested(case)
    if case[0] == 'pct':
        return run_percent(case)
    return run_shared(case) if case[0] == 'shared' else _run_single(case)


def run(ctx):
    ctx.explore(run_case, shared_cases(ctx.tier), chunksize=128, label='operand_used_twice')
    ctx.explore(run_case, nested_unary_cases(ctx.tier), chunksize=128, label='unary_inside_binary')
    ctx.explore(run_case, percent_cases(ctx.tier), chunksize=1, label='percent_sweep')
    ctx.explore(run_case, cases(ctx.tier), chunksize=256)
    return {'pool_size': len(pool(ctx.tier)), 'operators': len(S.BINOPS) + len(UNARY)}
