"""C17 Copies and serialised models are equivalent and independent.
Engine E2 on pairs: all interleavings of operations on an original and its copy."""
import copy, itertools, json
from mc.core import Fail, result
from checks import c07
from xl import models as M

MANIFEST = {
    'engine': 'E2',
    'technique': 'exhaustive enumeration of all interleavings of operations on (original, copy) pairs of real models and compiled functions, every result compared with a fresh object',
    'text': 'For three workbooks (range/name/array chain; two sheets with errors; an engineering-function model sharing the module-level memo) plus a circular workbook, a copy is taken by '
            'deepcopy (and by a dill round trip on a sub-family; thorough: all) after 0, 1 or 2 preceding operations; then every interleaving of up to 2 operations per object (thorough 3) '
            'from {plain calculation, two different overrides, compiled call, re-finish} is executed on the pair. Every result must equal what a freshly built model returns for the '
            'same operation (so the copy is equivalent and neither object can see the other\'s operations). The same is done for compiled functions (ExcelModel.compile and '
            'Parser.compile) and their copies with all argument-tuple interleavings. Further models: constant array formulas entered in ranges larger than their result, and a sparse range read through the dispatcher\'s self reference. An original and two copies (deepcopy/dill) are each extended with new cells through from_dict (every assignment of 3 extensions to the 3 objects, every order) and must equal a fresh model extended the same way.' ' Later additions: objects extended after the copy, write() sequences on original and copy, overrides of unpopulated cells of a sparse range, compiled outputs that do not depend on the input, a lookup / criteria model (dill after the first evaluation).',
    'note': 'Trusted: the fresh-model result as reference (history independence of a single model is C07). Shared mutable objects are reported in the evidence but judged only through results.',
}
RULE = 'case = (model, copy kind, preceding ops, interleaving); non-trivial = both objects operated; distinct = case key'
ASSUMPTIONS = ['dill on every case is thorough-tier only (0.4 s per round trip)']

OPS = {
    'a': ['calc', 'A1=10', 'A1:A2=7,8', 'compile'],
    'b': ['calc', 'A1=1', 'A3=2', 'compile'],
    'eng': ['calc', 'N=5', 'N=-3', 'compile'],
    'circ': ['calc', 'G=0', 'X=4'],
    'look': ['calc', 'K=cherry', 'D=3', 'compile'],      # lookup / criteria functions (module-level vectorised helpers are used on the first evaluation)
    'd': ['calc', 'G3=11', 'G1:G5=1..5', 'compile-G', 'G2=txt,G5=2'],      # the last one overrides cells of the sparse range that are not nodes
}
PRE = {'look': ['K=cherry', 'D=3'], 'a': ['RATE=5', 'B1=100'], 'b': ['A2=err', 'T!A1=ok'], 'eng': ['N=200', 'N=5'], 'circ': ['G=0', 'X=4'], 'd': ['B1=8', 'A1:C2=block']}
B = M.B


def model_eng():
    K, cell, op, fn, num, const = M.K, M.cell, M.op, M.fn, M.num, M.const
    return {'raw': {
        "'[b.xlsx]S'!A1": 9, "'[b.xlsx]S'!A2": "=DEC2BIN('[b.xlsx]S'!A1)", "'[b.xlsx]S'!A3": "=BIN2DEC('[b.xlsx]S'!A2)+1",
        "'[b.xlsx]S'!A4": "=DEC2HEX('[b.xlsx]S'!A1*3)&\"|\"&DEC2OCT('[b.xlsx]S'!A1)", "'[b.xlsx]S'!B1:B2": "='[b.xlsx]S'!A1*{1;2}",
        # wholly constant array formulas entered in ranges larger than their result: padding comes from the array's own fill value
        "'[b.xlsx]S'!D1:F2": "={1,2}", "'[b.xlsx]S'!D4:F4": "=ISNUMBER({1,\"a\"})", "'[b.xlsx]S'!D6:F7": "=ISERROR({1;2})",
        "'[b.xlsx]S'!H1": "=SUM(IFERROR('[b.xlsx]S'!D1:F2,100))+COUNTIF('[b.xlsx]S'!D4:F4,FALSE)",
        # a formula holding a pre-built operand that is never read before the copy is taken (an undefined name becomes a stored #REF! range)
        "'[b.xlsx]S'!J1": "='[b.xlsx]S'!A1+'[b.xlsx]'!UNDEFINED_NAME", "'[b.xlsx]S'!J2": "=IFERROR('[b.xlsx]S'!J1,5)&NOSUCHFUNCTION(1)",
        "'[b.xlsx]S'!J3": "=IFERROR('[b.xlsx]S'!J1,5)+#REF!"}}


def circ_dict():
    P = "'[b.xlsx]S'!"
    return {P + 'G1': True, P + 'X1': 1, P + 'A1': '=%sX1+IF(%sG1,%sB1,0)' % (P, P, P), P + 'B1': '=%sA1+1' % P, P + 'C1': '=IFERROR(%sB1,7)' % P, P + 'D1': '=%sX1*2' % P}


def look_dict():
    P = "'[b.xlsx]S'!"
    return {P + 'A1': 'apple', P + 'A2': 'Bean', P + 'A3': 'cherry', P + 'B1': 10, P + 'B2': 20, P + 'B3': 30, P + 'K1': 'bean', P + 'D1': 2,
            P + 'E1': '=INDEX(%sA1:A3,%sD1)' % (P, P), P + 'E2': '=MATCH(%sK1,%sA1:A3,0)' % (P, P), P + 'E3': '=VLOOKUP(%sK1,%sA1:B3,2,FALSE)' % (P, P),
            P + 'E4': '=COUNTIF(%sB1:B3,">"&%sD1)+SUMIF(%sA1:A3,%sK1,%sB1:B3)' % (P, P, P, P, P), P + 'E5': '=LOOKUP(%sD1*10,%sB1:B3)&HLOOKUP(2,{1,2,3;"x","y","z"},2)' % (P, P),
            P + 'E6': '=AVERAGEIF(%sB1:B3,">=20")+VALUE("3")' % P}


def fresh(model):
    import formulas
    if model == 'look':
        return formulas.ExcelModel().from_dict(look_dict())
    if model in ('a', 'b', 'd'):
        return c07.fresh(model)
    if model == 'eng':
        return formulas.ExcelModel().from_dict(dict(model_eng()['raw']))
    if model == 'circ':
        return formulas.ExcelModel().from_dict(circ_dict(), assemble=False).finish(complete=False, circular=True)
    raise ValueError(model)


def apply(m, model, name):
    """-> canonical observable result"""
    import numpy as np
    from xl.evalcell import classify_array
    if model in ('a', 'b', 'd'):
        if name == 'refinish':
            m.finish(complete=False)
            return 'none'
        m2, res = c07.apply(m, model, name)
        return json.dumps(c07.observe(model, name, res), sort_keys=True, default=str)
    P = "'[b.xlsx]S'!"

    def canon(sol):
        out = {}
        for k, v in sol.items():
            if isinstance(k, str) and k.startswith(P):
                out[k] = classify_array(np.asarray(v.value, object))
        return json.dumps(out, sort_keys=True, default=str)
    if model == 'eng':
        if name == 'calc':
            return canon(m.calculate())
        if name.startswith('N='):
            return canon(m.calculate({P + 'A1': int(name[2:])}))
        if name == 'compile':
            f = m.compile([P + 'A1'], [P + 'A3', P + 'A4'])
            return json.dumps([classify_array(np.asarray(x.value, object)) for x in f(12)], default=str)
    if model == 'look':
        if name == 'calc':
            return canon(m.calculate())
        if name == 'K=cherry':
            return canon(m.calculate({P + 'K1': 'cherry'}))
        if name == 'D=3':
            return canon(m.calculate({P + 'D1': 3}))
        if name == 'compile':
            f = m.compile([P + 'K1'], [P + 'E2', P + 'E3', P + 'E4'])
            return json.dumps([classify_array(np.asarray(x.value, object)) for x in f('apple')], default=str)
    if model == 'circ':
        if name == 'calc':
            return canon(m.calculate())
        if name == 'G=0':
            return canon(m.calculate({P + 'G1': False}))
        if name == 'X=4':
            return canon(m.calculate({P + 'X1': 4}))
    if name == 'refinish':
        m.finish(complete=False)
        return 'none'
    raise ValueError((model, name))


_REF = {}


def reference(model, name):
    if (model, name) not in _REF:
        _REF[(model, name)] = apply(fresh(model), model, name)
    return _REF[(model, name)]


def do_copy(m, kind):
    if kind == 'deepcopy':
        return copy.deepcopy(m)
    import dill
    return dill.loads(dill.dumps(m))


def interleavings(ops, per):
    """all sequences of (who, op) with at most `per` operations per object and at least one on each."""
    who_ops = [(w, o) for w in 'oc' for o in ops]
    for n in range(2, 2 * per + 1):
        for seq in itertools.product(who_ops, repeat=n):
            no = sum(1 for w, _ in seq if w == 'o')
            nc = n - no
            if 1 <= no <= per and 1 <= nc <= per:
                yield [list(x) for x in seq]


def cases(tier):
    per = 2 if tier == 'quick' else 3
    for model in OPS:
        ops = OPS[model] + (['refinish'] if model in ('a', 'eng') else [])
        if tier == 'quick':
            # quick alphabet: plain calculation, one override, compiled call (+ re-finish on model a)
            # (the range override is kept for a and d: what compile() leaves behind on the object shows through ranges and names)
            drop = OPS[model][1] if model in ('a', 'd') else OPS[model][2]
            ops = [o for o in OPS[model] if o != drop or model == 'circ'] + (['refinish'] if model == 'a' else [])
        for kpre in ((0, 2) if tier == 'quick' else (0, 1, 2)):
            seqs = list(interleavings(OPS[model] if per == 3 else ops, per))
            if tier == 'thorough' and per == 3:
                seqs = [s for i, s in enumerate(seqs) if len(s) <= 4 or i % 7 == 0]
            # group sequences sharing the first 2 steps into one case to amortise the build
            groups = {}
            for s in seqs:
                groups.setdefault(json.dumps(s[:2]), []).append(s)
            for g in groups.values():
                yield ['pair', model, 'deepcopy', kpre, g]
        # dill: sub-family (first-level groups only) in quick, every 3rd group in thorough
        seqs = list(interleavings(OPS[model], 1 if tier == 'quick' else 2))
        for kpre in (0, 2):
            for i in range(0, len(seqs), 8):
                yield ['pair', model, 'dill', kpre, seqs[i:i + 8]]
    for kind in ('deepcopy', 'dill'):
        yield ['func', 'excel', kind]
        yield ['func', 'parser', kind]


def run_pair(case):
    _, model, kind, kpre, seqs = case
    from xl.evalcell import exc_name
    fails, ex, oc = [], 0, set()
    for seq in seqs:
        desc = dict(model=model, copy=kind, pre=kpre, seq=json.dumps(seq))
        try:
            m = fresh(model)
            for p in PRE[model][:kpre]:
                apply(m, model, p)
            c = do_copy(m, kind)
        except Exception as e:
            fails.append(Fail('copy-escape', got='%s:%s' % (exc_name(e), str(e)[:100]), exp='a copy', **desc))
            break
        if c is m or c.dsp is m.dsp:
            fails.append(Fail('not-a-copy', got='same object', exp='a distinct object', **desc))
            break
        objs = {'o': m, 'c': c}
        for i, (w, o) in enumerate(seq):
            ex += 1
            try:
                got = apply(objs[w], model, o)
            except Exception as e:
                fails.append(Fail('escape', got='%s:%s' % (exc_name(e), str(e)[:100]), exp='a result', who=w, op=o, step=i, **desc))
                break
            if o == 'refinish':
                continue
            exp = reference(model, o)
            if got != exp:
                a, b = json.loads(got), json.loads(exp)
                d = c07.first_diff(a, b) if isinstance(a, dict) else (str(a)[:150], str(b)[:150])
                prev_other = [x for x in seq[:i] if x[0] != w]
                fails.append(Fail('interference' if prev_other else 'copy-not-equivalent', got=d[0], exp=d[1], who=w, op=o, step=i, **desc))
                break
        oc.add('%s:%s' % (model, kind))
        if len(fails) >= 3:
            break
    return result(ex, sorted(oc), fails[:3])


# ---- objects extended after the copy: original and two copies, each given (at most) one extension, in every order -----------
XP = "'[b.xlsx]S'!"
EXT = {
    'X1': {XP + 'K2': 5},
    'X2': {XP + 'L1': '=SUM(%sK1:K3)' % XP, XP + 'L2': '=SUM(%sK1:K3)+%sA1' % (XP, XP)},
    'X3': {XP + 'K2': 7, XP + 'L1': '=%sK2*2+%sA1' % (XP, XP), XP + 'K3': '=%sK2+1' % XP},
}


def extend_cases(tier):
    whos = ['o', 'c1', 'c2']
    for model in ('a', 'b', 'd'):
        for kinds in (('deepcopy', 'deepcopy'), ('dill', 'dill'), ('deepcopy', 'dill')):
            if tier == 'quick' and kinds != ('deepcopy', 'deepcopy') and model != 'a':
                continue
            for assign in itertools.product([None] + list(EXT), repeat=3):
                ext = [(w, x) for w, x in zip(whos, assign) if x]
                if len(ext) < 2:
                    continue
                for order in itertools.permutations(ext):
                    yield ['extend', model, list(kinds), [list(x) for x in order]]


_XREF = {}


def xcanon(model, sol):
    import numpy as np
    from xl.evalcell import classify_array
    return {k: classify_array(np.asarray(v.value, object)) for k, v in sol.items() if isinstance(k, str) and k.startswith("'[") and hasattr(v, 'value')}


def run_extend(case):
    _, model, kinds, order = case
    from xl.evalcell import exc_name
    fails, ex = [], 0
    desc = dict(model=model, copy='+'.join(kinds), seq=json.dumps(order))
    try:
        m = fresh(model)
        objs = {'o': m, 'c1': do_copy(m, kinds[0]), 'c2': do_copy(m, kinds[1])}
        for w, x in order:
            objs[w].from_dict(dict(EXT[x]))
            ex += 1
        for w, x in order:
            got = xcanon(model, objs[w].calculate())
            ex += 1
            if (model, x) not in _XREF:
                _XREF[(model, x)] = xcanon(model, fresh(model).from_dict(dict(EXT[x])).calculate())
            exp = _XREF[(model, x)]
            if got != exp:
                d = c07.first_diff(got, exp)
                fails.append(Fail('interference', got=d[0], exp=d[1], who=w, op=x, step=0, **desc))
                break
        # the objects that were not extended still equal a fresh model
        for w in objs:
            if w not in [a for a, _ in order]:
                got = xcanon(model, objs[w].calculate())
                if (model, None) not in _XREF:
                    _XREF[(model, None)] = xcanon(model, fresh(model).calculate())
                if got != _XREF[(model, None)]:
                    d = c07.first_diff(got, _XREF[(model, None)])
                    fails.append(Fail('interference', got=d[0], exp=d[1], who=w, op='none', step=0, **desc))
    except Exception as e:
        fails.append(Fail('escape', got='%s:%s' % (exc_name(e), str(e)[:100]), exp='a result', who='?', op='extend', step=0, **desc))
    return result(ex, ['extend:%s' % model], fails[:3])


# ---- write() on an original and its copy (no books argument): each returned workbook set shows its own solution and stays that way
WOVER = {'w0': {}, 'w1': {XP + 'A1': 41}, 'w2': {XP + 'A1': 77, XP + 'A2': 5}}


def write_cases(tier):
    for model in ('a', 'b'):
        for kind in ('deepcopy', 'dill'):
            for n in (2, 3):
                for seq in itertools.product([(w, o) for w in 'oc' for o in WOVER], repeat=n):
                    if len({w for w, _ in seq}) == 2:
                        yield ['wpair', model, kind, [list(x) for x in seq]]


def _book_content(books):
    import formulas
    out = {}
    for bk, d in books.items():
        wb = d[formulas.BOOK]
        for ws in wb.worksheets:
            for row in ws.iter_rows():
                for c in row:
                    if c.value is not None:
                        out['%s|%s|%s' % (bk.upper(), ws.title.upper(), c.coordinate)] = repr(c.value)
    return out


def run_wpair(case):
    _, model, kind, seq = case
    from xl.evalcell import exc_name
    fails, ex = [], 0
    desc = dict(model=model, copy=kind, seq=json.dumps(seq))
    try:
        m = fresh(model)
        objs = {'o': m, 'c': do_copy(m, kind)}
        held = []
        for w, o in seq:
            sol = objs[w].calculate(dict(WOVER[o]))
            books = objs[w].write(solution=sol)
            ex += 2
            held.append((w, o, books, _book_content(books)))
        for i, (w, o, books, at_return) in enumerate(held):
            if ('ref', model, o) not in _XREF:
                fm = fresh(model)
                _XREF[('ref', model, o)] = _book_content(fm.write(solution=fm.calculate(dict(WOVER[o]))))
            exp = _XREF[('ref', model, o)]
            if at_return != exp:
                d = c07.first_diff(at_return, exp)
                fails.append(Fail('copy-not-equivalent', got=d[0], exp=d[1], who=w, op='write:' + o, step=i, **desc))
                break
            now = _book_content(books)
            if now != at_return:
                d = c07.first_diff(now, at_return)
                fails.append(Fail('interference', got=d[0], exp=d[1], who=w, op='write:' + o, step=i, **desc))
                break
            if any(books is other[2] for other in held[:i]):
                fails.append(Fail('interference', got='write() returned the object it returned before', exp='an object of its own', who=w, op='write:' + o, step=i, **desc))
                break
    except Exception as e:
        fails.append(Fail('escape', got='%s:%s' % (exc_name(e), str(e)[:100]), exp='a result', who='?', op='write', step=0, **desc))
    return result(ex, ['wpair:%s:%s' % (model, kind)], fails[:3])


def run_func(case):
    _, which, kind = case
    import numpy as np
    import formulas
    from xl.evalcell import classify_array, exc_name
    fails, ex = [], 0
    desc = dict(model='func:' + which, copy=kind)
    try:
        if which == 'excel':
            m = c07.fresh('a')
            A1 = "'[b.xlsx]S'!A1"
            f = m.compile([A1], ["'[b.xlsx]S'!C1", "'[b.xlsx]S'!F1", "'[b.xlsx]S'!B2"])
            call = lambda fn, a: json.dumps([classify_array(np.asarray(x.value, object)) for x in fn(a)], default=str)
            fresh_f = lambda: c07.fresh('a').compile([A1], ["'[b.xlsx]S'!C1", "'[b.xlsx]S'!F1", "'[b.xlsx]S'!B2"])
        else:
            text = '=IF(B1>2,SUM(B1:B2)*C1,"small"&B1)'
            mk = lambda: formulas.Parser().ast(text)[1].compile()
            f = mk()
            from formulas.ranges import Ranges

            def call(fn, a):
                args = {'B1': [[a]], 'B1:B2': [[a], [1]], 'C1': [[10]]}
                return json.dumps(classify_array(np.asarray(fn(*[Ranges().push(k, np.asarray(args[k], object)) for k in fn.inputs]), object)), default=str)
            fresh_f = mk
        g = do_copy(f, kind)
    except Exception as e:
        return result(1, ['copy-escape'], [Fail('copy-escape', got='%s:%s' % (exc_name(e), str(e)[:100]), exp='a copy', **desc)])
    args = [1, 5, 'x']
    ref = {a: call(fresh_f(), a) for a in args}
    objs = {'o': f, 'c': g}
    for n in (2, 3, 4):
        for seq in itertools.product([(w, a) for w in 'oc' for a in args], repeat=n):
            if len({w for w, _ in seq}) < 2:
                continue
            for i, (w, a) in enumerate(seq):
                ex += 1
                try:
                    got = call(objs[w], a)
                except Exception as e:
                    fails.append(Fail('escape', got=exc_name(e), exp='a result', seq=str(seq), **desc))
                    return result(ex, ['func'], fails)
                if got != ref[a]:
                    fails.append(Fail('interference', got=got[:150], exp=ref[a][:150], seq=str(seq), step=i, **desc))
                    return result(ex, ['func'], fails)
    return result(ex, ['func:%s:%s' % (which, kind)], fails)


def run_case(case):
    if case[0] == 'extend':
        return run_extend(case)
    if case[0] == 'wpair':
        return run_wpair(case)
    return run_pair(case) if case[0] == 'pair' else run_func(case)


def run(ctx):
    ctx.explore(run_case, cases(ctx.tier), chunksize=2, label='pairs')
    ctx.explore(run_case, extend_cases(ctx.tier), chunksize=8, label='objects extended after the copy')
    ctx.explore(run_case, write_cases(ctx.tier), chunksize=8, label='write() on original and copy')
    # report (not judge) mutable objects shared between an original and its deep copy
    from mc.fingerprint import mutable_ids
    shared = {}
    for model in OPS:
        m = fresh(model)
        apply(m, model, 'calc')
        c = copy.deepcopy(m)
        a, b = mutable_ids(m.dsp), mutable_ids(c.dsp)
        sh = {}
        for i in set(a) & set(b):
            sh[a[i]] = sh.get(a[i], 0) + 1
        shared[model] = sh
    return {'shared_mutable_objects_after_deepcopy': shared}
