"""C08 Compiled functions agree with interpretation for every argument.
Engine E1: workbooks x input lists x output lists x argument tuples (two call
orders), and single formulas x argument tuples."""
import itertools, json
from mc.core import Fail, result
from xl import models as M, family as F
from ref import wbeval as W
from ref.values import *

MANIFEST = {
    'engine': 'E1',
    'technique': 'exhaustive enumeration of (workbook, input list, output list, argument tuple) on ExcelModel.compile and Parser.compile vs full calculation and a reference evaluator',
    'text': 'For three fixed workbooks and a sub-family of generated ones, every input list of 1-2 nodes (constant cells, formula cells, defined names, 2-cell ranges) '
            'x every output choice (each formula cell alone, all together) is compiled; each compiled function is called with the full product of a 9-value pool per '
            'argument (numbers, text, numeric text, logical, error, arrays for ranges) in forward and reverse order, and every returned value is compared with '
            'calculate() on a fresh model and with the reference evaluator. Single formulas: every tree with <= 2 operators over 1-3 reference leaves is compiled and '
            'called with the pool product in the order of its inputs mapping and compared with the same formula evaluated with the arguments as cell values. Every function is compiled twice from the same model object and the second one is judged. '
            'Workbooks with circular references (3 mutually referring cells, each of the 6 edges absent / direct / inside an IF branch; circular handling enabled) are compiled for every single input x output choice and compared with calculate() on a fresh model. Two workbooks using INDEX/MATCH/VLOOKUP/HLOOKUP/LOOKUP and SUMIF/COUNTIF/UPPER/TEXTJOIN over constant text tables are compiled for every ordered input list x output choice and called with every argument tuple in two passes, against calculate() on a fresh model.' ' Later additions: raw workbooks (lookup, criteria, SUMPRODUCT, a range with an unpopulated cell, a sparse range) judged differentially (calculate vs compiled), an interference pass (another function compiled from the same model and calculations between two calls), a calculate() with other overrides before compile(), circular models.',
    'note': 'Trusted: ref/wbeval.py, ref/scalar.py; the fresh-model calculation is an independent second reference. Blank arguments are supplied as cell inputs only.',
}
RULE = 'case = (workbook, inputs, outputs); inside a case every argument tuple is called twice; non-trivial = compiled and called; distinct = case key'
ASSUMPTIONS = ['argument values limited to the pool; workbooks limited to the fixed models and the generated sub-family']

POOL = [('n', 10.0), ('n', 0.0), ('n', -3.5), ('t', 'abc'), ('b', True), ('e', '#DIV/0!'), ('n', 2.0), ('t', ''), ('b', False)]
# numeric text is left out: inside a referenced range under SUM/MAX its treatment is not fixed by the statements (DESIGN 3.1)
RPOOL = [[('n', 1.0), ('n', 2.0), ('n', 9.0)], [('t', 'x'), ('n', 5.0), ('b', True)], [('e', '#N/A'), ('n', 0.0), ('n', 1.0)], [('b', False), ('t', 'q'), ('n', -4.0)]]


def spec_of(wb):
    if wb[0] == 'model':
        return M.MODELS[wb[1]]()
    return F.build(wb[1], wb[2])


def candidates(spec):
    """input candidates: (label, lib id, kind, [cell keys]) and output candidates (formula cell keys)."""
    from xl.wbspec import lib_id, name_id
    consts = [k for k, c in spec['cells'].items() if c[0] == 'const']
    forms = [k for k, c in spec['cells'].items() if c[0] != 'const']
    inp = [('c:' + k, lib_id(*k.split('|')), 'cell', [k]) for k in consts[:3]]
    inp += [('f:' + k, lib_id(*k.split('|')), 'cell', [k]) for k in forms[:2]]
    for nk, node in spec.get('names', {}).items():
        if node[0] == 'cell':
            inp.append(('n:' + nk, name_id(*nk.split('|')), 'cell', [W.key(node[1], node[2], node[3])]))
        elif node[0] == 'rng':                      # a name for a (column) range: the argument reaches the cells behind it
            c1, r1, c2, r2 = W.parse_rect(node[3])
            if c1 == c2 and r2 - r1 + 1 <= 3:
                inp.append(('nr:' + nk, name_id(*nk.split('|')), 'range', [W.key(node[1], node[2], W.coord(c1, r)) for r in range(r1, r2 + 1)]))
    # ranges the workbook itself refers to (only those are nodes of the model), up to 3 cells, all populated by constants/formulas
    seen = set()

    def walk(n):
        if isinstance(n, list):
            if n and n[0] == 'rng':
                seen.add((n[1], n[2], n[3]))
            for x in n:
                walk(x)
    for c in list(spec['cells'].values()) + list(spec.get('arrays', {}).values()):
        walk(c)
    for b, s, r in sorted(seen):
        c1, r1, c2, r2 = W.parse_rect(r)
        keys = [W.key(b, s, W.coord(c, rr)) for rr in range(r1, r2 + 1) for c in range(c1, c2 + 1)]
        if c1 == c2 and 2 <= len(keys) <= 3:
            inp.append(('r:' + W.key(b, s, r), lib_id(b, s, r), 'range', keys))
    return inp, forms


def cases(tier):
    wbs = [['model', m] for m in M.MODELS]
    shapes = F.shapes(2)
    step = 15 if tier == 'quick' else 3
    for i, shape in enumerate(shapes[::step]):
        forms = [[F.FORMS[(i + j + e) % len(F.FORMS)] if F.FORMS[(i + j + e) % len(F.FORMS)] != 'col' else 'range' for e in range(len(d))] for j, d in enumerate(shape)]
        wbs.append(['family', shape, forms])
    for wb in wbs:
        spec = spec_of(wb)
        inp, outs = candidates(spec)
        out_choices = [[o] for o in outs] + ([outs] if len(outs) > 1 else [])
        ins = [[i] for i in range(len(inp))] + [list(p) for p in itertools.combinations(range(len(inp)), 2)]
        for ii in ins:
            # two inputs that denote the same cell (a name and its cell) are not a meaningful argument list
            cells = [k for i in ii for k in inp[i][3]]
            if len(set(cells)) != len(cells):
                continue
            for oc in out_choices:
                yield ['wb', wb, ii, oc]


def to_lib(v):
    from xl.evalcell import to_scalar
    if isinstance(v, list):
        return [[to_scalar(x)] for x in v]
    return to_scalar(v)


def run_wb(case):
    _, wb, ii, outs = case
    from xl import wbspec as X
    from xl.evalcell import exc_name, classify
    import numpy as np
    spec = spec_of(wb)
    inp, _ = candidates(spec)
    sel = [inp[i] for i in ii]
    in_ids = [s[1] for s in sel]
    out_ids = [X.lib_id(*k.split('|')) for k in outs]
    outin = any(k in s[3] for s in sel for k in outs)
    desc = dict(wb=json.dumps(wb), inputs=','.join(s[0] for s in sel), outputs=','.join(outs), outin=outin)
    fails, oc, ex = [], set(), 0
    try:
        model = X.model_from_dict(spec)
        # a calculation with overrides of cells that are NOT inputs of the function comes first: compile() starts from the stored
        # workbook, not from whatever was calculated last
        others = {s[1]: to_lib(POOL[0] if s[2] != 'range' else RPOOL[0][:len(s[3])]) for s in inp if s[1] not in in_ids and not (set(s[3]) & {k for t in sel for k in t[3]})}
        if others:
            try:
                model.calculate(others)
            except Exception:
                pass
        # compile twice from the same model object and judge the second function: whatever compile() consumes or
        # leaves behind on the model must not show (the first function is called once in between)
        first = model.compile(in_ids, out_ids)
        try:
            first(*[to_lib(p[0][:len(s[3])] if s[2] == 'range' else p[0]) for s, p in zip(sel, [RPOOL if s[2] == 'range' else POOL for s in sel])])
        except Exception:
            pass
        func = model.compile(in_ids, out_ids)
    except Exception as e:
        return result(1, ['compile-escape'], [Fail('compile-escape', got='%s:%s' % (exc_name(e), str(e)[:80]), exp='a function', **desc)])
    pools = [RPOOL if s[2] == 'range' else POOL for s in sel]
    tuples = list(itertools.product(*pools))
    fresh = X.model_from_dict(spec)
    for order in (tuples, tuples[::-1]):
        for args in order:
            ex += 1
            over = {}
            for s, a in zip(sel, args):
                if s[2] == 'range':
                    a = a[:len(s[3])]
                    for k, v in zip(s[3], a):
                        over[k] = v
                else:
                    over[s[3][0]] = a
            try:
                res = func(*[to_lib(a[:len(s[3])] if s[2] == 'range' else a) for s, a in zip(sel, args)])
                res = res if isinstance(res, (list, tuple)) and len(out_ids) > 1 else [res]
                got = [classify(np.asarray(getattr(r, 'value', r), object).ravel()[0]) for r in res]
            except Exception as e:
                fails.append(Fail('call-escape', got='%s:%s' % (exc_name(e), str(e)[:80]), exp='values', args=str(args), **desc))
                oc.add('call-escape')
                continue
            try:
                ref, _ = W.solve(spec, over)
                exp = [ref[k] for k in outs]
            except W.Ambiguous:
                exp = None
            sol = fresh.calculate({s[1]: to_lib(a[:len(s[3])] if s[2] == 'range' else a) for s, a in zip(sel, args)}, out_ids)
            alt = [X.cell_value(sol, spec, k) for k in outs]
            for k, g, a in zip(outs, got, alt):
                oc.add('val:' + (g[1] if g[0] == 'e' else g[0]))
                if a is not None and not (g == a or close(g, a, 1e-12)):
                    fails.append(Fail('differs-from-calculate', got='%s=%s' % (k, g), exp='%s=%s' % (k, a), args=str(args), **desc))
                    break
            if exp is not None:
                for k, g, e in zip(outs, got, exp):
                    if e == BLANK:
                        e = N(0)
                    if not (g == e or close(g, e, 1e-12)):
                        fails.append(Fail('wrong-value', got='%s=%s' % (k, g), exp='%s=%s' % (k, e), args=str(args), **desc))
                        break
            if len(fails) > 6:
                return result(ex, sorted(oc), fails[:6])
    return result(ex, sorted(oc), fails[:6])


# ------------------------------------------------------------ single formulas
def formula_cases(tier):
    from ref import grammar as G
    refs = [G.leaf('B1', None), G.leaf('C1', None), G.leaf('D1', None)]
    for n in (1, 2):
        for t, used in G.trees(n, refs):
            yield ['formula', G.spell(t, 'safe'), min(used, 3)]
    for f in ['SUM(B1:B2,C1)', 'IF(B1>0,C1,D1)', 'IFERROR(B1/C1,D1)', 'B1&C1&B1', 'MAX(B1,C1)-MIN(D1,B1)', 'IF(ISERROR(B1),C1,B1+D1)', 'SUM(B1:D1)*2',
              'IF(B1,"y","n")&C1']:
        yield ['formula', f, 3]


FPOOL = [('n', 3.0), ('n', 0.0), ('n', -2.0), ('t', 'ab'), ('t', '5'), ('b', True), ('e', '#N/A'), ('blank',)]


def run_formula(case):
    _, text, nrefs = case
    import formulas, numpy as np
    from formulas.ranges import Ranges
    from xl.evalcell import classify, to_input, eval_formula, exc_name
    fails, oc, ex = [], set(), 0
    try:
        func = formulas.Parser().ast('=' + text)[1].compile()
        names = list(func.inputs)
    except Exception as e:
        return result(1, ['compile-escape'], [Fail('compile-escape', got=exc_name(e), exp='a function', formula=text)])
    shapes = {}
    for nme in names:
        try:
            g = Ranges().push(nme).ranges[0]
            shapes[nme] = (int(g['r2']) - int(g['r1']) + 1, g['n2'] - g['n1'] + 1)
        except Exception:
            shapes[nme] = (1, 1)
    pool = FPOOL if len(names) <= 2 else FPOOL[:5] + FPOOL[6:]
    for args in itertools.product(pool, repeat=len(names)):
        ex += 1
        inputs = {}
        libargs = []
        for nme, a in zip(names, args):
            r, c = shapes[nme]
            arr = ('arr', [[a] * c for _ in range(r)])
            inputs[nme] = arr
            try:
                libargs.append(Ranges().push(nme, np.asarray(to_input(arr), object)))
            except Exception:
                libargs.append(np.asarray(to_input(arr), object))      # a defined name: plain value
        try:
            v = func(*libargs)
            got = classify(np.asarray(getattr(v, 'value', v), object).ravel()[0])
        except Exception as e:
            got = ('BAD', 'exc:' + exc_name(e))
        exp = eval_formula('=' + text, inputs, ref='Z99')
        oc.add('val:' + (got[1] if got[0] in ('e', 'BAD') else got[0]))
        if not (got == exp or close(got, exp, 1e-12)):
            fails.append(Fail('formula-differs', got=got, exp=exp, formula=text, args=str(args), order=','.join(names)))
            if len(fails) > 4:
                break
    if names != sorted(names) and False:
        pass
    return result(ex, sorted(oc), fails)


# ---- formulas whose reference operators are folded at compile time: inputs mapping and values against hand-written expectations
def _v(env, k):
    return env[k]


FOLDED = [
    # (formula, real inputs, expected(env) -> reference value)
    ('IFERROR(B1:B2 D1:D2,C1)', ['C1'], lambda e: e['C1'] if e['C1'] != BLANK else N(0)),
    ('IF(ISERROR(B4:B5 C1:D9),C1,0)', ['C1'], lambda e: e['C1'] if e['C1'] != BLANK else N(0)),
    ('IFERROR(SUM(B1:B2 D1:D2),0)+IF(C1=C1,1,1)', ['C1'], lambda e: e['C1'] if e['C1'][0] == 'e' else N(1)),
    ('SUM(B4:B5 C1:D9)', [], lambda e: NULL),
    ('IFERROR(B1:C3 E2:F5,"none")&"|"', [], lambda e: T('none|')),
    ('IF(C1=1,(B1:B2 D1:D2),"x")', ['C1'], lambda e: e['C1'] if e['C1'][0] == 'e' else (NULL if e['C1'] == N(1) else T('x'))),
    ('ISERROR(B1:B2 D1:D2)&C1', ['C1'], None),
]


def folded_cases(tier):
    for i in range(len(FOLDED)):
        yield ['folded', i]


def run_folded(case):
    import re
    import formulas, numpy as np
    from formulas.ranges import Ranges
    from xl.evalcell import classify, to_input, exc_name
    _, i = case
    text, real, expf = FOLDED[i]
    fails, ex, oc = [], 0, set()
    try:
        func = formulas.Parser().ast('=' + text)[1].compile()
        names = list(func.inputs)
    except Exception as e:
        return result(1, ['compile-escape'], [Fail('compile-escape', got=exc_name(e), exp='a function', formula=text)])
    if sorted(names) != sorted(real):
        fails.append(Fail('inputs-mapping', got=names, exp=real, formula=text, args='', order=','.join(names)))
        return result(1, ['folded:inputs'], fails)
    for args in itertools.product(FPOOL, repeat=len(names)):
        ex += 1
        env = dict(zip(names, args))
        try:
            v = func(*[Ranges().push(k, np.asarray(to_input(a), object)) for k, a in zip(names, args)])
            got = classify(np.asarray(getattr(v, 'value', v), object).ravel()[0])
        except Exception as e:
            got = ('BAD', 'exc:' + exc_name(e))
        oc.add('val:' + (got[1] if got[0] in ('e', 'BAD') else got[0]))
        if expf is None:
            if got[0] == 'BAD':
                fails.append(Fail('formula-differs', got=got, exp='a value', formula=text, args=str(args), order=','.join(names)))
            continue
        exp = expf(env)
        if not (got == exp or close(got, exp, 1e-12)):
            fails.append(Fail('formula-differs', got=got, exp=exp, formula=text, args=str(args), order=','.join(names)))
            break
    return result(ex, sorted(oc), fails)


# ---- workbooks with circular references (circular handling enabled): compiled function vs calculate() on a fresh model
CIRC_P = "'[b.xlsx]S'!"
CIRC_EDGES = [(a, b) for a in 'ABC' for b in 'ABC' if a != b]


def circ_dict(forms):
    """A1, B1, C1 refer to each other (edge form per ordered pair: 0 absent, 1 direct, 2 inside an IF branch chosen by D1);
    D1 is a constant every cell adds; E1 depends on A1 and D1; F1 on D1 only."""
    P = CIRC_P
    d = {P + 'D1': 1}
    for a in 'ABC':
        terms = ['%sD1' % P]
        for (x, y), f in zip(CIRC_EDGES, forms):
            if x == a and f == 1:
                terms.append('%s%s1' % (P, y))
            elif x == a and f == 2:
                terms.append('IF(%sD1>5,%s%s1,1)' % (P, P, y))
        d[P + a + '1'] = '=' + '+'.join(terms)
    d[P + 'E1'] = '=%sA1+%sD1' % (P, P)
    d[P + 'F1'] = '=%sD1*2' % P
    return d


def _reaches(adj, s, t):
    seen, stack = set(), list(adj[s])
    while stack:
        v = stack.pop()
        if v == t:
            return True
        if v not in seen:
            seen.add(v)
            stack.extend(adj[v])
    return False


def circ_cases(tier):
    for forms in itertools.product((0, 1, 2), repeat=len(CIRC_EDGES)):
        if tier == 'quick' and sum(f == 2 for f in forms) > 1:
            continue
        # at least one cycle among the three cells when every edge is taken
        adj = {a: {y for (x, y), f in zip(CIRC_EDGES, forms) if x == a and f} for a in 'ABC'}
        if not any(_reaches(adj, a, a) for a in 'ABC'):
            continue
        yield ['circ', list(forms)]


CIRC_POOL = [('n', 10.0), ('n', 0.0), ('t', 'abc'), ('e', '#DIV/0!'), ('b', True)]


def run_circ(case):
    _, forms = case
    import formulas, numpy as np
    from xl.evalcell import classify, to_scalar, exc_name
    P = CIRC_P
    fails, oc, ex = [], set(), 0
    d = circ_dict(forms)
    cells = ['A1', 'B1', 'C1', 'D1']
    outs_all = ['A1', 'B1', 'C1', 'E1', 'F1']
    try:
        model = formulas.ExcelModel().from_dict(d).finish(circular=True)
        fresh = formulas.ExcelModel().from_dict(d).finish(circular=True)
    except Exception as e:
        return result(1, ['build-escape'], [Fail('compile-escape', got=exc_name(e), exp='a model', forms=str(forms), circular=True)])
    val = lambda r: classify(np.asarray(getattr(r, 'value', r), object).ravel()[0])
    for inp in cells:
        for outs in [[o] for o in outs_all if o != inp] + [[o for o in outs_all if o != inp]]:
            desc = dict(forms=str(forms), inputs=inp, outputs=','.join(outs), circular=True)
            try:
                func = model.compile([P + inp], [P + o for o in outs])
            except Exception as e:
                fails.append(Fail('compile-escape', got='%s:%s' % (exc_name(e), str(e)[:80]), exp='a function', **desc))
                continue
            for a in CIRC_POOL + CIRC_POOL[::-1]:
                ex += 1
                try:
                    res = func(to_scalar(a))
                    res = res if isinstance(res, (list, tuple)) and len(outs) > 1 else [res]
                    got = [val(r) for r in res]
                except Exception as e:
                    fails.append(Fail('call-escape', got='%s:%s' % (exc_name(e), str(e)[:80]), exp='values', args=str(a), **desc))
                    continue
                sol = fresh.calculate({P + inp: to_scalar(a)})
                exp = [val(sol[P + o]) if P + o in sol else None for o in outs]
                for o, g, e in zip(outs, got, exp):
                    oc.add('circ:' + (g[1] if g[0] == 'e' else g[0]))
                    if e is not None and not (g == e or close(g, e, 1e-12)):
                        fails.append(Fail('differs-from-calculate', got='%s=%s' % (o, g), exp='%s=%s' % (o, e), args=str(a), **desc))
                        break
            if len(fails) > 6:
                return result(ex, sorted(oc), fails[:6])
    return result(ex, sorted(oc), fails[:6])


# ---- workbooks using lookup / criteria / text functions over constant tables (the table is frozen at compile time and must
#      come back unchanged on every call): compiled function vs calculate() on a fresh model, every argument tuple, two passes
def raw_books():
    P = CIRC_P
    look = {P + 'A1': 'apple', P + 'A2': 'Bean', P + 'A3': 'cherry', P + 'B1': 10, P + 'B2': 20, P + 'B3': 30,
            P + 'D1': 2, P + 'K1': 'bean',
            P + 'E1': '=INDEX(%sA1:A3,%sD1)' % (P, P), P + 'E2': '=MATCH(%sK1,%sA1:A3,0)' % (P, P),
            P + 'E3': '=VLOOKUP(%sK1,%sA1:B3,2,FALSE)' % (P, P), P + 'E4': '=INDEX(%sA1:A3,%sE2)&"|"&%sA1' % (P, P, P),
            P + 'E5': '=HLOOKUP(%sD1,{1,2,3;"x","y","z"},2)&LOWER(%sA2)' % (P, P), P + 'E6': '=LOOKUP(%sK1,%sA1:A3,%sB1:B3)' % (P, P, P)}
    crit = {P + 'A1': 'apple', P + 'A2': 'Bean', P + 'A3': 'apple pie', P + 'B1': 10, P + 'B2': 20, P + 'B3': 30, P + 'K1': 'apple', P + 'D1': 1,
            P + 'E1': '=SUMIF(%sA1:A3,%sK1,%sB1:B3)' % (P, P, P), P + 'E2': '=COUNTIF(%sA1:A3,%sK1)' % (P, P),
            P + 'E3': '=UPPER(%sA2)&%sD1' % (P, P), P + 'E4': '=SUMIF(%sB1:B3,">"&%sD1)' % (P, P), P + 'E5': '=COUNTIF(%sA1:A3,"a*")+%sD1' % (P, P),
            P + 'E6': '=TEXTJOIN("-",TRUE,%sA1:A3)&%sK1' % (P, P)}
    keys = [('t', 'bean'), ('t', 'CHERRY'), ('t', 'x'), ('t', 'a*'), ('n', 20.0), ('e', '#N/A'), ('t', 'apple')]
    nums = [('n', 1.0), ('n', 3.0), ('n', 2.0), ('n', 0.0), ('t', 'q'), ('n', 25.0)]
    sump = {P + 'A1': 1, P + 'A2': 2, P + 'A3': 3, P + 'B1': 1, P + 'B2': 1, P + 'B3': 1,
            P + 'E1': '=SUMPRODUCT(%sA1:A3,%sB1:B3)' % (P, P), P + 'E2': '=SUM(%sA1:A3)*%sB2' % (P, P), P + 'E3': '=MAX(%sB1:B3)&"|"&%sA1' % (P, P),
            P + 'E4': '=SUM(%sA1:B3)' % P, P + 'E5': '=INDEX(%sA1:A3,2)+%sB1' % (P, P), P + 'E6': '=COUNT(%sA1:A3,%sB1:B3)' % (P, P)}
    small = [('n', 2.0), ('n', 50.0), ('n', 0.0), ('t', 'q')]
    # a range with an unpopulated cell given as ONE argument; the blank cell is also read directly
    blank = {P + 'A1': 1, P + 'A3': 3, P + 'E1': '=%sA1+1' % P, P + 'E2': '=%sA2+1' % P, P + 'E3': '=%sA3+1' % P, P + 'E4': '=SUM(%sA1:A3)' % P,
             P + 'E5': '=COUNT(%sA1:A3)&ISBLANK(%sA2)' % (P, P), P + 'E6': '=%sD1*2' % P, P + 'D1': 5}
    cols = [[('n', 1.0), ('n', 2.0), ('n', 3.0)], [('n', 7.0), ('t', 'x'), ('n', 9.0)], [('n', 0.0), ('n', 0.0), ('e', '#N/A')]]
    # a range with several unpopulated cells (assembled through the dispatcher's SELF reference); one of the blanks is an input
    sparse = {P + 'G1': 1, P + 'G4': 4, P + 'D1': 5, P + 'E1': '=SUM(%sG1:G5)+%sD1' % (P, P), P + 'E2': '=COUNT(%sG1:G5)&"|"&%sD1' % (P, P),
              P + 'E3': '=%sG1*10+%sD1' % (P, P), P + 'E4': '=SUM(%sG1:G5)*2' % P, P + 'E5': '=MAX(%sG1:G5)&%sG1' % (P, P), P + 'E6': '=%sD1&"x"' % P}
    return {'sparse2': (sparse, [(P + 'D1', small), (P + 'G2', small), (P + 'G1', small)], ['E1', 'E2', 'E3', 'E4', 'E5', 'E6']),
            'blankrange': (blank, [(P + 'A1:A3', cols), (P + 'D1', small)], ['E1', 'E2', 'E3', 'E4', 'E5', 'E6']),
            'sumprod': (sump, [(P + 'B1', small), (P + 'A1', small), (P + 'A2', small)], ['E1', 'E2', 'E3', 'E4', 'E5', 'E6']),
            'lookup': (look, [(P + 'D1', nums), (P + 'K1', keys)], ['E1', 'E2', 'E3', 'E4', 'E5', 'E6']),
            'criteria': (crit, [(P + 'D1', nums), (P + 'K1', keys)], ['E1', 'E2', 'E3', 'E4', 'E5', 'E6'])}


def raw_cases(tier):
    for name, (d, ins, outs) in raw_books().items():
        for k in range(1, len(ins) + 1):
            for sel in itertools.permutations(range(len(ins)), k):
                for oc in [[o] for o in outs] + [outs, outs[::-1]]:
                    yield ['raw', name, list(sel), oc]


def run_raw(case):
    _, name, sel, outs = case
    import formulas, numpy as np
    from xl.evalcell import classify, to_scalar, exc_name
    P = CIRC_P
    d, ins, _ = raw_books()[name]
    ins = [ins[i] for i in sel]
    fails, oc, ex = [], set(), 0
    desc = dict(wb=name, inputs=','.join(i for i, _ in ins), outputs=','.join(outs), raw=True)
    try:
        model = formulas.ExcelModel().from_dict(dict(d))
        fresh = formulas.ExcelModel().from_dict(dict(d))
        rest = {i: to_lib(p[1]) for i, p in raw_books()[name][1] if i not in [x for x, _ in ins]}
        if rest:
            model.calculate(rest)            # the last calculation overrode cells that are not inputs of the function
        func = model.compile([i for i, _ in ins], [P + o for o in outs])
    except Exception as e:
        return result(1, ['compile-escape'], [Fail('compile-escape', got='%s:%s' % (exc_name(e), str(e)[:80]), exp='a function', **desc)])
    val = lambda r: classify(np.asarray(getattr(r, 'value', r), object).ravel()[0])
    tuples = list(itertools.product(*[p for _, p in ins]))
    for rnd, order in enumerate((tuples, tuples[::-1])):
        for args in order:
            ex += 1
            try:
                res = func(*[to_lib(a) for a in args])
                res = res if isinstance(res, (list, tuple)) and len(outs) > 1 else [res]
                got = [val(r) for r in res]
            except Exception as e:
                fails.append(Fail('call-escape', got='%s:%s' % (exc_name(e), str(e)[:80]), exp='values', args=str(args), **desc))
                continue
            sol = fresh.calculate({i: to_lib(a) for (i, _), a in zip(ins, args)})
            exp = [val(sol[P + o]) for o in outs]
            for o, g, e in zip(outs, got, exp):
                oc.add('raw:' + (g[1] if g[0] == 'e' else g[0]))
                if not (g == e or close(g, e, 1e-12)):
                    fails.append(Fail('differs-from-calculate', got='%s=%s' % (o, g), exp='%s=%s' % (o, e), args=str(args), call=rnd * len(tuples) + order.index(args), **desc))
                    break
        if len(fails) > 6:
            break
    # several functions compiled from ONE model with different input lists, and calculations in between: what one of them (or the
    # model) computes must not show in the values the others froze at compile time
    all_ins = raw_books()[name][1]
    others = [x for x in all_ins if x[0] not in [i for i, _ in ins]] or all_ins[::-1]
    try:
        f2 = model.compile([others[0][0]], [P + o for o in outs])
        for args in tuples[:8]:
            ex += 1
            for alt in others[0][1][:3]:
                f2(to_lib(alt))
                model.calculate({others[0][0]: to_lib(alt), all_ins[-1][0]: to_lib(all_ins[-1][1][1])})
            res = func(*[to_lib(a) for a in args])
            res = res if isinstance(res, (list, tuple)) and len(outs) > 1 else [res]
            got = [val(r) for r in res]
            sol = fresh.calculate({i: to_lib(a) for (i, _), a in zip(ins, args)})
            exp = [val(sol[P + o]) for o in outs]
            if any(not (g == e or close(g, e, 1e-12)) for g, e in zip(got, exp)):
                fails.append(Fail('differs-from-calculate', got=str(got)[:120], exp=str(exp)[:120], args=str(args), call='after another compiled function and calculations on the same model', **desc))
                break
    except Exception as e:
        fails.append(Fail('call-escape', got='%s:%s' % (exc_name(e), str(e)[:80]), exp='values', args='interference pass', **desc))
    return result(ex, sorted(oc), fails[:6])


def run_case(case):
    if case[0] == 'folded':
        return run_folded(case)
    if case[0] == 'circ':
        return run_circ(case)
    if case[0] == 'raw':
        return run_raw(case)
    return run_wb(case) if case[0] == 'wb' else run_formula(case)


def run(ctx):
    ctx.explore(run_case, cases(ctx.tier), chunksize=2, label='workbook_functions')
    ctx.explore(run_case, formula_cases(ctx.tier), chunksize=4, label='single_formulas')
    ctx.explore(run_case, folded_cases(ctx.tier), chunksize=1, label='compile_time_folded_references')
    ctx.explore(run_case, circ_cases(ctx.tier), chunksize=2, label='circular_workbooks')
    ctx.explore(run_case, raw_cases(ctx.tier), chunksize=2, label='lookup_and_criteria_workbooks')
    return {}
