"""C20 Calendar and number-system conversions are exact inverses.
Engine E1 on complete domains: every date serial, every second of a day, every
10-bit value, the structured octal/hexadecimal sub-domain, every ROMAN argument.
The registered functions are called on chunked array arguments; a sparse
deterministic sub-grid also goes through the Cell formula path."""
import itertools, re, sys
import numpy as np
from mc.core import Fail, result
from ref import calendar as C
from ref import bases as BS
from ref import roman as R

MANIFEST = {
    'engine': 'E1',
    'technique': 'complete-domain enumeration of conversion functions on the real code vs an independent reference calendar / radix / roman model, plus inverse laws on the implementation itself',
    'text': 'All 2,958,466 date serials (YEAR/MONTH/DAY, DATE of the parts and of two unnormalised spellings, WEEKDAY with return_type omitted and in the 10 '
            'return types with the one-step law; quick: every serial with return_type omitted plus one rotating return_type per 8192-serial chunk, '
            'all ten on the first and last chunk; thorough: all ten everywhere), all 86,400 seconds (HOUR/MINUTE/SECOND of TIME), all 1024 binary values and all binary strings of 1..10 digits, the '
            'structured octal/hexadecimal sub-domain (within 4096 of 0, of both bounds and of every power of the base; single-digit-varied patterns; '
            'thorough: every pattern with <= 4 non-zero digits), all 6 cross conversions against composition through DEC, the places argument, '
            'out-of-domain arguments, and ROMAN for all 4000 numbers x 5 forms with ARABIC as inverse are executed by the registered functions '
            'and, on a sparse grid, through Cell formulas.',
    'note': 'Trusted: ref/calendar.py (ordinal arithmetic, self-audited against numpy datetime64 and datetime), ref/bases.py, ref/roman.py (two '
            'independently written generators agree on all 20000 arguments); all three audited against Excel cached values of test.xlsx. '
            'The full 2^30 / 2^40 octal / hexadecimal domains are not enumerated: the structured sub-domain is the bound claimed.',
}
RULE = ('a case is a chunk descriptor (serial range, hour, value range, digit-position set, roman form x range); every element of the chunk is '
        'executed on the implementation; non-trivial = at least one implementation execution; distinct = distinct chunk key; transitions = single function executions')
ASSUMPTIONS = [
    'ROMAN(n, FALSE): Microsoft documents FALSE as "simplified" (form 4) but the corpus only fixes TRUE = classic; form 0 or form 4 is accepted for FALSE',
    'DEC2x with a negative number ignores a valid places argument (1..10) and returns ten digits (Microsoft: "places is ignored"); invalid places with a negative number are not explored',
    'places > 10 gives #NUM! (the result cannot exceed ten characters); places given as text or blank are not explored',
    'DATE with an unnormalised day is explored only as DATE(y,1,day-of-year) and DATE(y,m+1,d-days_in_month(m)); December 9999 is left out of the second spelling (year 10000 intermediate)',
    'octal / hexadecimal: only the structured sub-domain is enumerated (DESIGN.md C20 stated limit)',
    'digit strings with blanks, signs inside text, numeric text for DEC2x and the empty string for x2DEC are not explored',
    'TIME is only required to be within 1e-9 of (3600h+60m+s)/86400; HOUR/MINUTE/SECOND are exact',
]

MAXS = C.MAX_SERIAL
DATE_CHUNK = 8192
CAP = 40                      # reported failures per (class, function) and chunk; the rest is counted in an outcome
NUMT = {int, float, np.int64, np.float64, np.int32}
_F = None


def F(name):
    global _F
    if _F is None:
        import formulas
        _F = formulas.get_functions()
    return _F[name]


class Rec:
    def __init__(self):
        self.execs, self.out, self.fails, self.n = 0, set(), [], {}

    def fail(self, cls, got, exp, **f):
        k = (cls, f.get('fn'))
        self.n[k] = self.n.get(k, 0) + 1
        if self.n[k] <= CAP:
            self.fails.append(Fail(cls, got=got, exp=exp, **f))
        else:
            self.out.add('capped:%s:%s' % k)

    def done(self):
        return result(self.execs, sorted(self.out), self.fails)


def cl(x):
    """implementation value -> classified scalar."""
    from xl.evalcell import classify
    if isinstance(x, np.ndarray):
        if x.size != 1:
            return ('BAD', 'array%s' % (x.shape,))
        x = x.ravel()[0]
    return classify(x)


def ex(v):
    """reference value (int | digit string | error string) -> classified scalar."""
    if isinstance(v, str):
        return ('e', v) if v.startswith('#') else ('t', v)
    return ('n', float(v))


def kind(c):
    return c[1] if c[0] in ('e', 'BAD') else c[0]


def region(s):
    return 'day0' if s == 0 else 'jan-feb-1900' if s < 60 else 'feb29-1900' if s == 60 else '1900' if s <= 366 else 'normal'


def call(rec, fn, *args):
    rec.execs += 1
    try:
        return cl(F(fn)(*args))
    except Exception as e:
        return ('BAD', 'exc:' + type(e).__name__)


def cell(rec, text, inputs=None, **kw):
    from xl.evalcell import eval_formula
    rec.execs += 1
    return eval_formula(text, inputs, **kw)


def expect(rec, cls, got, exp, **f):
    """exp: one classified value or a set of them."""
    rec.out.add('%s:%s' % (f.get('fn'), kind(got)))
    ok = got in exp if isinstance(exp, (set, frozenset, list)) else got == exp
    if not ok:
        rec.fail(cls, got, sorted(exp) if isinstance(exp, (set, frozenset)) else exp, gotk=kind(got), **f)
    return ok


# ---------------------------------------------------------------- dates ----
def vec(rec, cls, fn, args, exp, serials, **f):
    """one array call of a registered function; exact comparison element by element."""
    try:
        lst = np.asarray(F(fn)(*args), object).ravel().tolist()
    except Exception as e:
        rec.fail('bad-value', 'exc:' + type(e).__name__, None, fn=fn, serial=int(serials[0]), path='direct', **f)
        return None
    rec.execs += len(serials)
    if len(lst) != len(serials):
        rec.fail('bad-value', 'shape %d' % len(lst), len(serials), fn=fn, serial=int(serials[0]), path='direct', **f)
        return None
    if set(map(type, lst)) <= NUMT:
        a = np.array(lst, float)
        bad = np.nonzero(a != exp)[0].tolist()
        rec.out.add(fn + ':n')
    else:
        a = None
        cs = [cl(v) for v in lst]
        bad = [i for i, c in enumerate(cs) if c != ('n', float(exp[i]))]
        rec.out.update('%s:%s' % (fn, kind(c)) for c in cs)
    for i in bad:
        s = int(serials[i])
        rec.fail(cls, cl(lst[i]), int(exp[i]), fn=fn, serial=s, region=region(s), path='direct', **f)
    return a


def days_before(y, m):
    return sum(C.month_len(y, k) for k in range(1, m))


def run_dates(case):
    _, start, stop, modes = case
    rec = Rec()
    s = np.arange(start, stop, dtype=np.int64)
    sf = s.astype(float)
    y, m, d = C.ymd_np(s)
    for fn, e in (('YEAR', y), ('MONTH', m), ('DAY', d)):
        vec(rec, 'date-part', fn, (sf,), e, s)
    vec(rec, 'date-inverse', 'DATE', (y.astype(float), m.astype(float), d.astype(float)), s, s, form='ymd')
    # unnormalised spellings of the same day: day-of-year from January, and counted back from the next month
    ylist, mlist = y.tolist(), m.tolist()
    cache = {}
    for k in set(zip(ylist, mlist)):
        cache[k] = (days_before(*k), C.month_len(*k))
    doy = d + np.array([cache[k][0] for k in zip(ylist, mlist)])
    vec(rec, 'date-normalise', 'DATE', (y.astype(float), np.ones(len(s)), doy.astype(float)), s, s, form='y,1,doy')
    keep = ~((y == 9999) & (m == 12))
    if keep.any():
        ml = np.array([cache[k][1] for k in zip(ylist, mlist)])
        vec(rec, 'date-normalise', 'DATE', (y[keep].astype(float), (m[keep] + 1).astype(float), (d[keep] - ml[keep]).astype(float)),
            s[keep], s[keep], form='y,m+1,d-len')
    # WEEKDAY: one more serial than the chunk so that every adjacent pair is inside exactly one chunk
    s2 = np.arange(start, min(stop, MAXS) + 1, dtype=np.int64)
    for mode in [None] + modes:              # None: return_type omitted
        args = (s2.astype(float),) if mode is None else (s2.astype(float), float(mode))
        a = vec(rec, 'weekday', 'WEEKDAY', args, C.weekday_np(s2, mode or 1), s2, mode=mode)
        if a is not None and len(a) > 1:
            lo = 0 if mode == 3 else 1
            for i in np.nonzero(a[1:] != lo + (a[:-1] - lo + 1) % 7)[0].tolist():
                rec.fail('weekday-step', [a[i], a[i + 1]], 'next day of the week', fn='WEEKDAY', serial=int(s2[i]), mode=mode,
                         region=region(int(s2[i])), path='direct')
    return rec.done()


def month_boundaries(y0, y1):
    out = set()
    for y in range(y0, y1):
        for m in range(1, 13):
            f = C.serial(y, m, 1)
            out.update((f - 1, f, f + C.month_len(y, m) - 1))
    return sorted(out)


def run_datearr(case):
    """Cell path, array formulas over the first and last day of every month of the years y0..y1-1."""
    _, y0, y1 = case
    rec = Rec()
    s = month_boundaries(y0, y1)
    n = len(s)
    rng = 'B1:B%d' % n
    inp = {rng: ('arr', [[('n', float(k))] for k in s])}
    y, m, d = (a.tolist() for a in C.ymd_np(s))
    mode = C.MODES[(y0 // 10) % len(C.MODES)]
    jobs = [('YEAR', '=YEAR(%s)' % rng, y), ('MONTH', '=MONTH(%s)' % rng, m), ('DAY', '=DAY(%s)' % rng, d),
            ('DATE', '=DATE(YEAR({0}),MONTH({0}),DAY({0}))'.format(rng), s),
            ('WEEKDAY', '=WEEKDAY(%s)' % rng, C.weekday_np(s, 1).tolist()),
            ('WEEKDAY', '=WEEKDAY(%s,%d)' % (rng, mode), C.weekday_np(s, mode).tolist())]
    for fn, text, e in jobs:
        got = cell(rec, text, inp, ref='A1:A%d' % n, scalar=False)
        rec.execs += n - 1
        if not (isinstance(got, list) and len(got) == n and all(isinstance(r, list) and len(r) == 1 for r in got)):
            rec.fail('bad-value', got if isinstance(got, tuple) else 'shape', None, fn=fn, serial=s[0], path='cell-array', formula=text)
            continue
        cls = {'DATE': 'date-inverse', 'WEEKDAY': 'weekday'}.get(fn, 'date-part')
        for i, row in enumerate(got):
            expect(rec, cls, row[0], ('n', float(e[i])), fn=fn, serial=s[i], region=region(s[i]), path='cell-array', formula=text)
    return rec.done()


def run_datecell(case):
    """Cell path, one scalar formula per function and serial."""
    rec = Rec()
    for s in case[1]:
        y, m, d = C.ymd(s)
        inp = {'B1': ('n', float(s))}
        mode = C.MODES[(s // 997) % len(C.MODES)]
        jobs = [('YEAR', '=YEAR(B1)', y, 'date-part'), ('MONTH', '=MONTH(B1)', m, 'date-part'), ('DAY', '=DAY(B1)', d, 'date-part'),
                ('DATE', '=DATE(YEAR(B1),MONTH(B1),DAY(B1))', s, 'date-inverse'),
                ('DATE', '=DATE(%d,%d,%d)' % (y, m, d), s, 'date-inverse'),
                ('WEEKDAY', '=WEEKDAY(B1)', C.weekday(s, 1), 'weekday'),
                ('WEEKDAY', '=WEEKDAY(B1,%d)' % mode, C.weekday(s, mode), 'weekday'),
                ('YEAR', '=YEAR(B1+0.75)', y, 'date-part'), ('DAY', '=DAY(%d)' % s, d, 'date-part')]
        for fn, text, e, cls in jobs:
            expect(rec, cls, cell(rec, text, inp), ('n', float(e)), fn=fn, serial=s, region=region(s), path='cell', formula=text)
    return rec.done()


def run_dateout(case):
    """arguments outside the supported range give #NUM!."""
    rec = Rec()
    num = ('e', '#NUM!')
    for s in (-1.0, -2.5, float(MAXS + 1), MAXS + 1.5, 3e6, -1e9, 1e15):
        for fn in ('YEAR', 'MONTH', 'DAY', 'WEEKDAY'):
            expect(rec, 'out-of-domain', call(rec, fn, s), num, fn=fn, arg=s, path='direct')
            expect(rec, 'out-of-domain', cell(rec, '=%s(B1)' % fn, {'B1': ('n', s)}), num, fn=fn, arg=s, path='cell')
    for s in (0.0, 1.0, 60.0, 45292.0, float(MAXS)):
        for mode in C.BAD_MODES:
            expect(rec, 'out-of-domain', call(rec, 'WEEKDAY', s, float(mode)), num, fn='WEEKDAY', arg=s, mode=mode, path='direct')
            expect(rec, 'out-of-domain', cell(rec, '=WEEKDAY(B1,%d)' % mode, {'B1': ('n', s)}), num, fn='WEEKDAY', arg=s, mode=mode, path='cell')
    for a in ((10000, 1, 1), (9999, 12, 32), (9999, 13, 1), (1900, 1, -1), (1900, 0, 30), (9999, 1, 366), (-1, 1, 1)):
        expect(rec, 'out-of-domain', call(rec, 'DATE', *map(float, a)), num, fn='DATE', arg=a, path='direct')
        expect(rec, 'out-of-domain', cell(rec, '=DATE(%d,%d,%d)' % a), num, fn='DATE', arg=a, path='cell')
    return rec.done()


# ----------------------------------------------------------------- time ----
def run_time(case):
    _, h = case
    rec = Rec()
    t = np.arange(h * 3600, (h + 1) * 3600)
    hh, mm, ss = np.full(3600, float(h)), (t // 60 % 60).astype(float), (t % 60).astype(float)
    try:
        tv = np.asarray(F('TIME')(hh, mm, ss), object).ravel().tolist()
    except Exception as e:
        rec.fail('bad-value', 'exc:' + type(e).__name__, None, fn='TIME', second=int(t[0]), path='direct')
        return rec.done()
    rec.execs += 3600
    for i, v in enumerate(tv):
        c = cl(v)
        rec.out.add('TIME:' + kind(c))
        if c[0] != 'n' or abs(c[1] - t[i] / 86400.0) > 1e-9:
            rec.fail('time-value', c, t[i] / 86400.0, fn='TIME', second=int(t[i]), path='direct')
    if all(type(v) in NUMT for v in tv):
        for fn, e in (('HOUR', hh), ('MINUTE', mm), ('SECOND', ss)):
            vec(rec, 'time-inverse', fn, (np.array(tv, float),), e, t)
    for k in t.tolist():
        if k % 997 == 0 or k % 3600 in (0, 1, 59, 60, 3599):
            a = (k // 3600, k // 60 % 60, k % 60)
            for fn, e in zip(('HOUR', 'MINUTE', 'SECOND'), a):
                text = '=%s(TIME(%d,%d,%d))' % ((fn,) + a)
                expect(rec, 'time-inverse', cell(rec, text), ('n', float(e)), fn=fn, second=k, path='cell', formula=text)
            inp = {'B1': ('n', float(a[0])), 'C1': ('n', float(a[1])), 'D1': ('n', float(a[2]))}
            text = '=HOUR(TIME(B1,C1,D1))*10000+MINUTE(TIME(B1,C1,D1))*100+SECOND(TIME(B1,C1,D1))'
            expect(rec, 'time-inverse', cell(rec, text, inp), ('n', float(a[0] * 10000 + a[1] * 100 + a[2])), fn='HMS', second=k, path='cell', formula=text)
    return rec.done()


def run_timeout(case):
    rec = Rec()
    num = ('e', '#NUM!')
    for fn in ('HOUR', 'MINUTE', 'SECOND'):
        for v in (-1.0, -2.5, -1e6):
            expect(rec, 'out-of-domain', call(rec, fn, v), num, fn=fn, arg=v, path='direct')
            expect(rec, 'out-of-domain', cell(rec, '=%s(B1)' % fn, {'B1': ('n', v)}), num, fn=fn, arg=v, path='cell')
    for a in ((-1, 0, 0), (0, -1, 0), (0, 0, -1), (32768, 0, 0), (0, 32768, 0), (0, 0, 32768)):
        expect(rec, 'out-of-domain', call(rec, 'TIME', *map(float, a)), num, fn='TIME', arg=a, path='direct')
        expect(rec, 'out-of-domain', cell(rec, '=TIME(%d,%d,%d)' % a), num, fn='TIME', arg=a, path='cell')
    return rec.done()


# ---------------------------------------------------------------- bases ----
NAME = {2: 'BIN', 8: 'OCT', 16: 'HEX'}


def places_for(n_digits):
    return sorted({max(n_digits - 1, 1), n_digits, 10, 11} | ({n_digits - 1} if n_digits == 1 else set()))


def check_value(rec, base, n, full):
    """one decimal value n: DEC2x, x2DEC of the result, of the reference spelling and of the padded pattern."""
    d2x, x2d = 'DEC2' + NAME[base], NAME[base] + '2DEC'
    e = BS.dec2x(n, base)
    got = call(rec, d2x, float(n))
    expect(rec, 'base-from-dec', got, ex(e), fn=d2x, value=n, sign=(n < 0), path='direct')
    if e == BS.NUM:
        return
    if got[0] == 't':
        expect(rec, 'base-inverse', call(rec, x2d, got[1]), ex(n), fn=x2d, value=n, text=got[1], path='direct')
    spell = {e, BS.pattern(n, base)} | ({e.lower()} if full else set())
    for tx in sorted(spell - ({got[1]} if got[0] == 't' else set())):
        expect(rec, 'base-to-dec', call(rec, x2d, tx), ex(n), fn=x2d, value=n, text=tx, path='direct')
    if full:
        if e.isdigit() and (e == '0' or e[0] != '0'):      # the digit string typed as a number
            expect(rec, 'base-to-dec', call(rec, x2d, float(e)), ex(n), fn=x2d, value=n, text=e, typed='number', path='direct')
        fr = n + (0.7 if n >= 0 else -0.7)                   # truncation towards zero
        expect(rec, 'base-from-dec', call(rec, d2x, fr), ex(e), fn=d2x, value=n, arg=fr, sign=(n < 0), path='direct')
        for p in places_for(len(e)) + [0, -1]:
            pe = BS.dec2x(n, base, p)
            if n < 0 and not 1 <= p <= 10:
                continue                                     # invalid places with a negative number: not explored
            expect(rec, 'base-places', call(rec, d2x, float(n), float(p)), ex(pe), fn=d2x, value=n, places=p, sign=(n < 0),
                   rel=('short' if p < len(e) else 'fit'), path='direct')
        expect(rec, 'base-from-dec', cell(rec, '=%s(B1)' % d2x, {'B1': ('n', float(n))}), ex(e), fn=d2x, value=n, sign=(n < 0), path='cell')
        expect(rec, 'base-to-dec', cell(rec, '=%s(B1)' % x2d, {'B1': ('t', e)}), ex(n), fn=x2d, value=n, text=e, path='cell')
        text = '=%s(%s(%d))' % (x2d, d2x, n)
        expect(rec, 'base-inverse', cell(rec, text), ex(n), fn=x2d, value=n, path='cell', formula=text)


def run_dec(case):
    """['dec', base, start, stop]: every decimal value of the range (inside and just outside the domain)."""
    _, base, start, stop = case
    rec = Rec()
    lo, hi = BS.bounds(base)
    for n in range(start, stop):
        full = base == 2 or n % 257 == 0 or min(abs(n - lo), abs(n - hi)) <= 2 or abs(n) <= 2
        check_value(rec, base, n, full)
    return rec.done()


def run_strings(case):
    """['str', base, texts]: digit strings as typed -> x2DEC, and DEC2x back to the canonical spelling."""
    _, base, texts = case
    rec = Rec()
    strings(rec, base, texts)
    return rec.done()


def strings(rec, base, texts, alt_case=True):
    d2x, x2d = 'DEC2' + NAME[base], NAME[base] + '2DEC'
    for tx in texts:
        n = BS.x2dec(tx, base)
        forms = {tx, tx.lower()} if alt_case else {tx}
        for t in sorted(forms):
            expect(rec, 'base-to-dec', call(rec, x2d, t), ex(n), fn=x2d, value=n, text=t, path='direct')
        if n != BS.NUM:
            expect(rec, 'base-from-dec', call(rec, d2x, float(n)), ex(BS.dec2x(n, base)), fn=d2x, value=n, sign=(n < 0), path='direct')


def run_nz(case):
    """['nz', base, positions, first]: every 10-digit pattern whose non-zero digits sit exactly at `positions`
    (first: the digit at positions[0], or None for all)."""
    _, base, pos, first = case
    rec = Rec()
    dig = BS.DIGITS[1:base]
    pools = [[first] if first else dig] + [dig] * (len(pos) - 1)
    texts = []
    for combo in itertools.product(*pools):
        t = ['0'] * 10
        for p, c in zip(pos, combo):
            t[p] = c
        texts.append(''.join(t))
    strings(rec, base, texts, alt_case=False)
    return rec.done()


def varied_patterns(base):
    top = BS.DIGITS[base - 1]
    half = BS.DIGITS[base // 2]
    seeds = ['0' * 10, top * 10, half + '0' * 9, BS.DIGITS[base // 2 - 1] + top * 9]
    out = set()
    for sd in seeds:
        for p in range(10):
            for c in BS.DIGITS[:base]:
                t = sd[:p] + c + sd[p + 1:]
                out.add(t)
                out.add(t.lstrip('0') or '0')
    return sorted(out)


def run_cross(case):
    """['cross', src, dst, start, stop]: SRC2DST on every value of the range against the reference and
    against the implementation's own composition through DEC."""
    _, src, dst, start, stop = case
    rec = Rec()
    fn, s2d, d2d = '%s2%s' % (NAME[src], NAME[dst]), NAME[src] + '2DEC', 'DEC2' + NAME[dst]
    lo, hi = BS.bounds(src)
    dlo, dhi = BS.bounds(dst)
    for n in range(max(start, lo), min(stop, hi + 1)):
        e = BS.dec2x(n, dst)
        near = min(abs(n - dlo), abs(n - dhi), abs(n)) <= 2 or n % 8 == 0
        for tx in sorted({BS.dec2x(n, src), BS.pattern(n, src)}):
            got = call(rec, fn, tx)
            expect(rec, 'cross', got, ex(e), fn=fn, value=n, text=tx, indomain=(e != BS.NUM), path='direct')
            via = call(rec, s2d, tx)
            comp = call(rec, d2d, via[1]) if via[0] == 'n' else via
            if comp != got:
                rec.fail('cross-composition', got, comp, fn=fn, value=n, text=tx, path='direct')
        if not near:
            continue
        tx = BS.dec2x(n, src)
        if e != BS.NUM:
            for p in places_for(len(e)):
                if n < 0 and not 1 <= p <= 10:
                    continue                                 # invalid places with a negative number: not explored
                pe = BS.x2y(tx, src, dst, p)
                expect(rec, 'cross-places', call(rec, fn, tx, float(p)), ex(pe), fn=fn, value=n, text=tx, places=p, sign=(n < 0),
                       rel=('short' if p < len(e) else 'fit'), path='direct')
        if tx.isdigit() and (tx == '0' or tx[0] != '0'):
            expect(rec, 'cross', call(rec, fn, float(tx)), ex(e), fn=fn, value=n, text=tx, typed='number', indomain=(e != BS.NUM), path='direct')
        text = '=%s("%s")' % (fn, tx)
        expect(rec, 'cross', cell(rec, text), ex(e), fn=fn, value=n, text=tx, indomain=(e != BS.NUM), path='cell', formula=text)
    return rec.done()


def run_baseout(case):
    rec = Rec()
    num, val = ('e', '#NUM!'), ('e', '#VALUE!')
    for base, nm in NAME.items():
        bad = ['1' * 11, '0' * 11, '10000000000', BS.DIGITS[base] if base < 16 else 'G', 'Z', '-1', '+1', '1.1', '1 1', '1,1', '1_1',
               {2: '0b1', 8: '0o7', 16: '0x1F'}[base]]
        for dst in ['DEC'] + [v for v in NAME.values() if v != nm]:
            fn = '%s2%s' % (nm, dst)
            for tx in bad:
                expect(rec, 'out-of-domain', call(rec, fn, tx), num, fn=fn, arg=tx, typed='text', path='direct')
                expect(rec, 'out-of-domain', cell(rec, '=%s(B1)' % fn, {'B1': ('t', tx)}), num, fn=fn, arg=tx, typed='text', path='cell')
            for x in (-1.0, 2.3, 11111111111.0):
                expect(rec, 'out-of-domain', call(rec, fn, x), num, fn=fn, arg=x, typed='number', path='direct')
                expect(rec, 'out-of-domain', cell(rec, '=%s(B1)' % fn, {'B1': ('n', x)}), num, fn=fn, arg=x, typed='number', path='cell')
            expect(rec, 'out-of-domain', call(rec, fn, True), val, fn=fn, arg=True, typed='logical', path='direct')
            expect(rec, 'out-of-domain', cell(rec, '=%s(B1)' % fn, {'B1': ('b', True)}), val, fn=fn, arg=True, typed='logical', path='cell')
            if dst != 'DEC':
                for p, e in ((0, num), (-1, num), (11, num), (255, num)):
                    expect(rec, 'out-of-domain', call(rec, fn, '1', float(p)), e, fn=fn, arg='1', places=p, path='direct')
                expect(rec, 'base-places', call(rec, fn, '1', 2.9), ('t', '01'), fn=fn, value=1, places=2.9, path='direct')
                expect(rec, 'out-of-domain', call(rec, fn, '1', 'x'), val, fn=fn, arg='1', places='x', path='direct')
        fn = 'DEC2' + nm
        lo, hi = BS.bounds(base)
        for x in (lo - 1, hi + 1, lo - 1.5, hi + 1.5, 1e12, -1e12, 1e15):
            expect(rec, 'out-of-domain', call(rec, fn, float(x)), num, fn=fn, arg=x, typed='number', path='direct')
            expect(rec, 'out-of-domain', cell(rec, '=%s(B1)' % fn, {'B1': ('n', float(x))}), num, fn=fn, arg=x, typed='number', path='cell')
        for x, c in (('abc', 't'), (True, 'b')):
            expect(rec, 'out-of-domain', call(rec, fn, x), val, fn=fn, arg=x, typed=c, path='direct')
            expect(rec, 'out-of-domain', cell(rec, '=%s(B1)' % fn, {'B1': (c, x)}), val, fn=fn, arg=x, typed=c, path='cell')
        for p, e in ((0, num), (-1, num), (11, num), ('x', val)):
            a = float(p) if not isinstance(p, str) else p
            expect(rec, 'out-of-domain', call(rec, fn, 1.0, a), e, fn=fn, arg=1, places=p, path='direct')
        expect(rec, 'base-places', call(rec, fn, 1.0, 2.9), ('t', '01'), fn=fn, value=1, places=2.9, path='direct')
        expect(rec, 'base-places', cell(rec, '=%s(1,3)' % fn), ('t', '001'), fn=fn, value=1, places=3, path='cell')
        expect(rec, 'base-places', cell(rec, '=%s(-1,3)' % fn), ('t', BS.dec2x(-1, base)), fn=fn, value=-1, places=3, sign=True, rel='short', path='cell')
    return rec.done()


# ---------------------------------------------------------------- roman ----
FORMS = [0, 1, 2, 3, 4, 'omit', 'TRUE', 'FALSE']


def form_args(form):
    """(direct argument tuple, formula spelling, set of numeric forms accepted)."""
    if form == 'omit':
        return (), '', {0}
    if form == 'TRUE':
        return (True,), ',TRUE', {0}
    if form == 'FALSE':
        return (False,), ',FALSE', {0, 4}
    return (float(form),), ',%d' % form, {form}


def run_roman(case):
    _, form, lo, hi = case
    rec = Rec()
    fargs, fspell, fset = form_args(form)
    ns = list(range(lo, hi))
    try:
        got = np.asarray(F('ROMAN')(np.array(ns, float), *fargs), object).ravel().tolist()
    except Exception as e:
        rec.fail('bad-value', 'exc:' + type(e).__name__, None, fn='ROMAN', n=lo, form=form, path='direct')
        return rec.done()
    rec.execs += len(ns)
    if len(got) != len(ns):
        rec.fail('bad-value', 'shape %d' % len(got), len(ns), fn='ROMAN', n=lo, form=form, path='direct')
        return rec.done()
    ref = [R.roman_table(n, min(fset)) for n in ns]
    try:
        back = np.asarray(F('ARABIC')(np.array(got, object)), object).ravel().tolist()
        back_ref = np.asarray(F('ARABIC')(np.array(ref + [r.lower() for r in ref], object)), object).ravel().tolist()
        rec.execs += 3 * len(ns)
    except Exception as e:
        rec.fail('bad-value', 'exc:' + type(e).__name__, None, fn='ARABIC', n=lo, form=form, path='direct')
        return rec.done()
    for i, n in enumerate(ns):
        acc = set().union(*(R.accepted(n, f) for f in fset))
        g = cl(got[i])
        ok = expect(rec, 'roman', g, {('t', s) for s in acc}, fn='ROMAN', n=n, form=form, path='direct')
        if g[0] == 't':
            if R.arabic(g[1]) != n:
                rec.fail('roman-value', g, n, fn='ROMAN', n=n, form=form, reads=R.arabic(g[1]), path='direct')
            expect(rec, 'roman-inverse', cl(back[i]), ('n', float(n)), fn='ARABIC', n=n, form=form, text=g[1], path='direct')
        for j, tx in ((i, ref[i]), (i + len(ns), ref[i].lower())):
            if not (ok and tx == g[-1]):
                expect(rec, 'arabic', cl(back_ref[j]), ('n', float(n)), fn='ARABIC', n=n, form=form, text=tx, path='direct')
        if n % 7 == 0 or n in (1, 3999, 499, 999, 1999, 2999):
            text = '=ROMAN(%d%s)' % (n, fspell)
            expect(rec, 'roman', cell(rec, text), {('t', s) for s in acc}, fn='ROMAN', n=n, form=form, path='cell', formula=text)
            text = '=ARABIC(ROMAN(B1%s))' % fspell
            expect(rec, 'roman-inverse', cell(rec, text, {'B1': ('n', float(n))}), ('n', float(n)), fn='ARABIC', n=n, form=form, path='cell', formula=text)
            if isinstance(form, int):
                inp = {'B1': ('n', n + 0.9), 'C1': ('n', form + 0.9)}
                expect(rec, 'roman', cell(rec, '=ROMAN(B1,C1)', inp), {('t', s) for s in acc}, fn='ROMAN', n=n, form=form, arg='fractional',
                       path='cell', formula='=ROMAN(B1,C1)')
    return rec.done()


def run_romanout(case):
    rec = Rec()
    val = ('e', '#VALUE!')
    for a in ((-1.0,), (4000.0,), (4000.5,), (1e6,), (1.0, 5.0), (1.0, -1.0), (3999.0, 5.0), (0.0, 7.0), (-1.0, 4.0)):
        expect(rec, 'out-of-domain', call(rec, 'ROMAN', *a), val, fn='ROMAN', arg=a, path='direct')
        text = '=ROMAN(%s)' % ','.join('%r' % x for x in a)
        expect(rec, 'out-of-domain', cell(rec, text), val, fn='ROMAN', arg=a, path='cell', formula=text)
    for tx in ('Vh', 'ciao', '1', 'MXZ'):
        expect(rec, 'out-of-domain', call(rec, 'ARABIC', tx), val, fn='ARABIC', arg=tx, path='direct')
        expect(rec, 'out-of-domain', cell(rec, '=ARABIC(B1)', {'B1': ('t', tx)}), val, fn='ARABIC', arg=tx, path='cell')
    expect(rec, 'arabic', call(rec, 'ARABIC', ''), ('n', 0.0), fn='ARABIC', n=0, text='', path='direct')
    expect(rec, 'arabic', cell(rec, '=ARABIC(B1)', {'B1': ('blank',)}), ('n', 0.0), fn='ARABIC', n=0, text='blank', path='cell')
    expect(rec, 'roman', cell(rec, '=ROMAN(B1)', {'B1': ('blank',)}), ('t', ''), fn='ROMAN', n=0, form='omit', path='cell')
    return rec.done()


# ------------------------------------------------------------- dispatch ----
RUNNERS = {'dates': run_dates, 'datearr': run_datearr, 'datecell': run_datecell, 'dateout': run_dateout, 'time': run_time,
           'timeout': run_timeout, 'dec': run_dec, 'str': run_strings, 'nz': run_nz, 'cross': run_cross, 'baseout': run_baseout,
           'roman': run_roman, 'romanout': run_romanout}


def run_case(case):
    return RUNNERS[case[0]](case)


def merged(intervals):
    out = []
    for a, b in sorted(intervals):
        if out and a <= out[-1][1]:
            out[-1][1] = max(out[-1][1], b)
        else:
            out.append([a, b])
    return out


def split(intervals, size):
    for a, b in merged(intervals):
        for k in range(a, b, size):
            yield k, min(k + size, b)


def structured(base, radius):
    """half-open decimal intervals: around 0, both bounds and +-every power of the base."""
    lo, hi = BS.bounds(base)
    cs = [0, lo, hi + 1] + [sg * base ** k for k in range(1, 10) for sg in (1, -1)]
    return [(c - radius, c + radius + 1) for c in cs]


def date_cases(tier):
    """every serial in both tiers; quick runs WEEKDAY with return_type omitted plus one explicit return_type per
    chunk (rotating, all ten on the first and last chunk), thorough runs all ten on every chunk."""
    starts = list(range(0, MAXS + 1, DATE_CHUNK))
    for i, a in enumerate(starts):
        allm = tier == 'thorough' or i in (0, len(starts) - 1)
        yield ['dates', a, min(a + DATE_CHUNK, MAXS + 1), list(C.MODES) if allm else [C.MODES[i % len(C.MODES)]]]


def datecell_cases():
    g = sorted(set(range(0, MAXS + 1, 997)) | {0, 1, 2, 31, 32, 58, 59, 60, 61, 62, 365, 366, 367, 368, 36526, 45292, MAXS - 1, MAXS})
    return (['datecell', g[i:i + 16]] for i in range(0, len(g), 16))


def base_cases(tier):
    yield ['baseout']
    for a, b in split([(-513 - 64, 512 + 64)], 64):
        yield ['dec', 2, a, b]
    for ln in range(1, 11):                      # every binary string of 1..10 digits
        ts = [''.join(t) for t in itertools.product('01', repeat=ln)]
        for i in range(0, len(ts), 128):
            yield ['str', 2, ts[i:i + 128]]
    for base in (8, 16):
        for a, b in split(structured(base, 4096), 1024):
            yield ['dec', base, a, b]
        vp = varied_patterns(base)
        for i in range(0, len(vp), 128):
            yield ['str', base, vp[i:i + 128]]
    for src, dst in itertools.permutations((2, 8, 16), 2):
        dlo, dhi = BS.bounds(dst)
        iv = [(-1100, 1101)] + [(c - 300, c + 301) for c in (dlo, dhi + 1)] + [(c - 20, c + 21) for c in sum(([b ** k, -b ** k] for b in (8, 16) for k in range(2, 10)), [])]
        iv += structured(src, 300) if tier == 'thorough' else []
        for a, b in split(iv, 128):
            yield ['cross', src, dst, a, b]
    if tier == 'thorough':
        for base in (8, 16):
            for k in (1, 2, 3, 4):
                for pos in itertools.combinations(range(10), k):
                    if base == 16 and k == 4:
                        for c in BS.DIGITS[1:16]:
                            yield ['nz', base, list(pos), c]
                    else:
                        yield ['nz', base, list(pos), None]


def roman_cases():
    yield ['romanout']
    for form in FORMS:
        for a in range(0, 4000, 250):
            yield ['roman', form, a, a + 250]


# ------------------------------------------------ oracle audit (Excel) -----
def oracle(fn, args):
    """reference answer for a corpus formula, or None when outside the alphabet of this check."""
    num = lambda v: isinstance(v, (int, float)) and not isinstance(v, bool)
    if fn in ('YEAR', 'MONTH', 'DAY') and len(args) == 1 and num(args[0]):
        t = C.ymd(int(args[0] // 1))
        return '#NUM!' if t is None else t[('YEAR', 'MONTH', 'DAY').index(fn)]
    if fn == 'WEEKDAY' and len(args) == 1 and num(args[0]):
        return C.weekday(int(args[0] // 1), 1) if 0 <= args[0] <= MAXS else '#NUM!'
    if fn == 'DATE' and len(args) == 3 and all(num(a) for a in args):
        y, m, d = (int(a // 1) for a in args)
        y += 1900 if y < 1900 else 0
        return C.serial(y, m, d) if 1 <= m <= 12 and y <= 9999 and (1 <= d <= C.month_len(y, m) or (y, m, d) == (1900, 1, 0)) else None
    if fn in ('HOUR', 'MINUTE', 'SECOND') and len(args) == 1 and num(args[0]):
        if args[0] < 0:
            return '#NUM!'
        k = int(round(args[0] % 1 * 86400))
        return (k // 3600 % 24, k // 60 % 60, k % 60)[('HOUR', 'MINUTE', 'SECOND').index(fn)] if abs(args[0] % 1 * 86400 - k) < 1e-3 else None
    m = re.fullmatch(r'(BIN|OCT|HEX|DEC)2(BIN|OCT|HEX|DEC)', fn)
    if m and 1 <= len(args) <= 2 and (len(args) == 1 or num(args[1])):
        src, dst = m.groups()
        p = int(args[1]) if len(args) == 2 else None
        x = args[0]
        if isinstance(x, bool):
            return '#VALUE!'
        if src == 'DEC':
            if isinstance(x, str):
                return '#VALUE!' if not re.fullmatch(r'[-+]?\d+(\.\d*)?', x) else None
            return BS.dec2x(int(x), BS.BASE[dst], p)
        if num(x):
            if x < 0 or x != int(x):
                return '#NUM!'
            x = '%d' % x
        if x == '':
            return None
        n = BS.x2dec(x, BS.BASE[src])
        return n if n == '#NUM!' or dst == 'DEC' else BS.dec2x(n, BS.BASE[dst], p)
    if fn == 'ROMAN' and 1 <= len(args) <= 2 and num(args[0]) and (len(args) == 1 or num(args[1]) or args[1] is True):
        f = 0 if len(args) == 1 or args[1] is True else int(args[1])
        return R.roman_table(int(args[0]), f) if 0 <= int(args[0]) < 4000 and 0 <= f <= 4 else '#VALUE!'
    if fn == 'ARABIC' and len(args) == 1 and isinstance(args[0], str):
        v = R.arabic(args[0])
        t = args[0].upper()
        canon = v is not None and 0 <= v < 4000 and t in set().union(*(R.accepted(v, f) for f in range(5)))
        return v if canon else ('#VALUE!' if v is None else None)
    return None


def audit_corpus(path='/repo/test/test_files/test.xlsx'):
    """oracle vs Excel's cached values; returns (#agreeing, [disagreements])."""
    import openpyxl
    wf, wv = openpyxl.load_workbook(path), openpyxl.load_workbook(path, data_only=True)
    pat = re.compile(r'=(?:_xlfn\.)?([A-Z0-9]+)\(([^()]*)\)')
    n, bad = 0, []
    for ws in wf.worksheets:
        if ws.title not in ('DATE & TIME', 'ENGINEERING', 'MATH & TRIG'):
            continue
        vs = wv[ws.title]
        for row in ws.iter_rows():
            for c in row:
                m = isinstance(c.value, str) and pat.fullmatch(c.value)
                if not m:
                    continue
                args, okay = [], True
                for a in m.group(2).split(','):
                    a = a.strip()
                    if re.fullmatch(r'\$?[A-Z]{1,2}\$?\d+', a):
                        v = vs[a.replace('$', '')].value
                        if v is None or (isinstance(v, str) and v.startswith('#')):
                            okay = False
                        args.append(v)
                    elif re.fullmatch(r'-?\d+(\.\d+)?', a):
                        args.append(float(a))
                    else:
                        okay = False
                e = oracle(m.group(1), args) if okay else None
                if e is None:
                    continue
                n += 1
                if vs[c.coordinate].value != e:
                    bad.append((ws.title, c.coordinate, c.value, args, vs[c.coordinate].value, e))
    return n, bad


def audit():
    C.self_audit()
    BS.self_audit()
    differ = R.self_audit()
    n, bad = audit_corpus()
    if bad or n < 40:
        raise AssertionError('oracle disagrees with Excel cached values: %d audited, %r' % (n, bad[:5]))
    return {'oracle_corpus_formulas_agreeing': n, 'roman_generators_differ_on': len(differ)}


def run(ctx):
    try:
        extra = audit()
    except AssertionError as e:
        sys.stderr.write('ORACLE-AUDIT-ERROR C20: %s\n' % (e,))
        sys.exit(2)
    t = ctx.tier
    ctx.explore(run_case, date_cases(t), chunksize=1, label='date serials (chunks of %d)' % DATE_CHUNK)
    ctx.explore(run_case, itertools.chain(datecell_cases(), (['datearr', y, min(y + 10, 10000)] for y in range(1900, 10000, 10)), [['dateout']]),
                chunksize=4, label='dates through Cell formulas (every 997th serial; all month boundaries)')
    ctx.explore(run_case, [['time', h] for h in range(24)] + [['timeout']], chunksize=1, label='seconds of a day (by hour)')
    ctx.explore(run_case, base_cases(t), chunksize=2, label='radix conversions')
    ctx.explore(run_case, roman_cases(), chunksize=2, label='roman numerals')
    extra.update(date_serials=MAXS + 1, seconds=86400, roman_arguments=4000 * len(FORMS), weekday_modes=len(C.MODES) + 1)
    return extra
