"""C10 Circular references: termination, isolation and exact marking.
Engine E1 (all digraphs <= 4 nodes for the cycle analysis; all 3-cell workbooks
over edge forms) + E3 (cycle list order / rotation seam, dict order, real seeds)."""
import itertools, json, os, subprocess, sys, signal
from mc.core import Fail, result, VERIF

MANIFEST = {
    'engine': 'E3',
    'technique': 'exhaustive enumeration of all small digraphs (cycle analysis vs brute force) and of all 3-cell cyclic workbooks vs a lazy stack evaluator; permutation of cycle order seam; real hash seeds',
    'text': 'simple_cycles is run on every digraph with <= 4 labelled nodes incl. self-loops (65536 + smaller; thorough adds all 5-node loop-free digraphs, 2^20) and '
            'with every skip_nodes subset / insertion order on 3 nodes, against a brute-force enumeration. Every workbook of 3 mutually referring cells whose 9 edges '
            'are each absent / direct / IF-guarded (3^9 x 2 guard values = 39366) plus range, name, IFERROR- and IFS-guarded edge forms as deviations is loaded with '
            'circular handling and calculated under a watchdog; every cell, three dependents (arithmetic, IFERROR, ISERROR) and an independent chain are compared with '
            'a lazy evaluation-stack oracle; cycle-list order, rotations, dict order and real hash seeds are permuted.' ' Later additions: the stored spellings _xlfn.IFNA / _xlfn.IFS as edge forms, IFS with the back reference in a later test (an edge when the test is read; when an earlier test holds, the circular marking and the ordinary value are both accepted) or in the last value (lazy), an eager error-absorbing reader IFERROR(X,7) on graphs without lazy branches, cycles through ranges with bystander cells.',
    'note': 'Trusted: the lazy stack oracle in this file (a cell re-entered while on the evaluation stack is on an unavoidable cycle; only selected branches are evaluated). '
            'Dependents of circular cells must be error values (which error is not fixed).',
}
RULE = 'graph = adjacency bit matrix; workbook = 9 edge forms + guard values; non-trivial = analysed/calculated by the library; distinct = case key'
ASSUMPTIONS = ['random graphs to 9 nodes of the statement are replaced by all graphs up to 4 (5) nodes',
               'the cycle-order seam permutes a superset of what hash seeds can produce; real seeds 0..7 (thorough 0..31) are run free']

P = "'[b.xlsx]S'!"
CELLS = ['A1', 'B1', 'C1']
CIRC = 'CIRC'


# ------------------------------------------------------------ cycle analysis
def brute_cycles(adj):
    """all elementary cycles as canonical rotations (smallest node first)."""
    nodes = sorted(adj)
    out = []

    def dfs(start, v, path, seen):
        for w in sorted(adj[v]):
            if w == start:
                out.append(tuple(path))
            elif w > start and w not in seen:
                dfs(start, w, path + [w], seen | {w})
    for s in nodes:
        dfs(s, s, [s], {s})
    return sorted(out)


def canon_rot(c):
    c = list(c)
    i = c.index(min(c))
    return tuple(c[i:] + c[:i])


def run_graphs(case):
    _, n, lo, hi, mode = case
    from formulas.excel.cycle import simple_cycles
    fails, oc, ex = [], {}, 0
    nodes = list(range(n))
    pairs = [(i, j) for i in nodes for j in nodes if mode != 'noloops' or i != j]
    for bits in range(lo, hi):
        adj = {i: set() for i in nodes}
        for k, (i, j) in enumerate(pairs):
            if bits >> k & 1:
                adj[i].add(j)
        variants = [(adj, ())]
        if mode == 'full3':
            variants = []
            for order in itertools.permutations(nodes):
                g = {}
                for i in order:
                    g[i] = set(adj[i])
                for r in range(n + 1):
                    for skip in itertools.combinations(nodes, r):
                        variants.append((g, skip))
        for g, skip in variants:
            ex += 1
            exp = brute_cycles({i: {j for j in g[i] if j not in skip} for i in g if i not in skip})
            try:
                gi = {k: set(v) for k, v in g.items()}
                got = [list(c) for c in simple_cycles(gi, skip_nodes=skip)]
            except Exception as e:
                fails.append(Fail('cycles-escape', got=type(e).__name__, exp=len(exp), n=n, bits=bits, skip=str(skip)))
                continue
            bad = any(len(set(c)) != len(c) or any(c[(t + 1) % len(c)] not in g[c[t]] for t in range(len(c))) for c in got)
            gotc = sorted(canon_rot(c) for c in got)
            k = 'cycles:%d' % min(len(exp), 9)
            oc[k] = oc.get(k, 0) + 1
            if bad or gotc != exp:
                fails.append(Fail('cycles', got=gotc[:8], exp=exp[:8], n=n, bits=bits, skip=str(skip), order=str(list(g))))
            if gi != {k: set(v) for k, v in g.items()} and not skip:
                pass  # the function copies by default; mutation of the argument with copy=True would be a defect
    return result(ex, list(oc), fails)


def graph_cases(tier):
    for n in (1, 2, 3):
        yield ['graphs', n, 0, 2 ** (n * n), 'full3' if n == 3 else 'loops']
    step = 1024
    for lo in range(0, 2 ** 16, step):
        yield ['graphs', 4, lo, lo + step, 'loops']
    if tier == 'thorough':
        step = 4096
        for lo in range(0, 2 ** 20, step):
            yield ['graphs', 5, lo, lo + step, 'noloops']


# ------------------------------------------------------------ workbooks
# edge forms (11-13 below): 0 absent, 1 direct, 2 IF(G1,X,0), 3 SUM(X:X) range, 4 name, 5 IFERROR(H1,X), 6 IFS(G1,X,TRUE,0), 7 IFNA(H1,X), 8 IF(G2,X,0), 9 _xlfn.IFNA, 10 _xlfn.IFS
def term(f, j):
    x = P + CELLS[j]
    if f == 1:
        return x
    if f == 2:
        return 'IF(%sG1,%s,0)' % (P, x)
    if f == 3:
        return 'SUM(%s:%s)' % (x, CELLS[j])
    if f == 4:
        return "'[b.xlsx]'!CYC_%d" % j
    if f == 5:
        return 'IFERROR(%sH1,%s)' % (P, x)
    if f == 6:
        return 'IFS(%sG1,%s,TRUE,0)' % (P, x)
    if f == 7:
        return 'IFNA(%sH1,%s)' % (P, x)
    if f == 8:
        return 'IF(%sG2,%s,0)' % (P, x)       # a second, independent guard
    if f == 9:
        return '_xlfn.IFNA(%sH1,%s)' % (P, x)  # the spellings Excel stores in files
    if f == 10:
        return '_xlfn.IFS(%sG1,%s,TRUE,0)' % (P, x)
    if f == 11:
        return 'IFS(%sG1,1,%s>0,2,TRUE,3)' % (P, x)     # the reference sits in a LATER TEST of IFS: tests are not lazy branches (a cycle through one is unavoidable)
    if f == 12:
        return 'IFS(NOT(%sG1),1,TRUE,%s)' % (P, x)      # the reference is the value of the last pair: reached only when the first test fails... (G1 true)
    if f == 13:
        return 'IFERROR(%s,7)' % x                      # the reference is the FIRST argument of IFERROR: read always, errors of a cell it reads are absorbed - its own circular marking is not
    raise ValueError(f)


def wb_dict(mat, g, h, g2=None):
    d = {P + 'G1': bool(g), P + 'H1': ('#N/A' if h else 0), P + 'G2': bool(g if g2 is None else g2)}
    for i, c in enumerate(CELLS):
        terms = ['%d' % (i + 1)] + [term(f, j) for j, f in enumerate(mat[i]) if f]
        d[P + c] = '=' + '+'.join(terms)
    if any(f == 4 for row in mat for f in row):
        for j in range(3):
            d["'[b.xlsx]'!CYC_%d" % j] = '=' + P + CELLS[j]
    d[P + 'D1'] = '=%sA1+100' % P
    d[P + 'E1'] = '=IFERROR(%sA1,7)' % P
    d[P + 'F1'] = '=ISERROR(%sA1)' % P
    d[P + 'K1'] = 5
    d[P + 'K2'] = '=%sK1*2' % P
    return d


def calc_file(mat, g, h, g2=None):
    """documented path: a real .xlsx loaded with finish(circular=True)."""
    import openpyxl, formulas
    from openpyxl.workbook.defined_name import DefinedName
    from xl.wbspec import Scratch
    d = wb_dict(mat, g, h, g2)
    wb = openpyxl.Workbook()
    ws = wb.active
    ws.title = 'S'
    for k, v in d.items():
        if k.startswith(P):
            if isinstance(v, str):
                v = v.replace(P, '').replace("'[b.xlsx]'!", '')
            c = ws[k[len(P):]]
            c.value = v
            if v == '#N/A':
                c.data_type = 'e'
        else:
            nm = k.split('!')[1]
            wb.defined_names[nm] = DefinedName(nm, attr_text='S!$%s$1' % v[len(P) + 1:][0])
    with Scratch() as tmp:
        path = os.path.join(tmp, 'b.xlsx')
        wb.save(path)
        old = signal.signal(signal.SIGPROF, _alarm)
        signal.setitimer(signal.ITIMER_PROF, 60)     # CPU time, not wall time: independent of machine load
        try:
            s = formulas.ExcelModel().loads(path).finish(circular=True).calculate()
        finally:
            signal.setitimer(signal.ITIMER_PROF, 0)
            signal.signal(signal.SIGPROF, old)
    return read_solution(s)


def active(f, g, h, g2=None):
    return f in (1, 3, 4) or (f in (2, 6, 10, 12) and g) or (f in (5, 7, 9) and h) or (f == 8 and (g if g2 is None else g2)) or f in (11, 13)


def oracle(mat, g, h, g2=None, ifs_unread=False):
    """Guards are constants, so the set of selected (active) edges is static.
    * a cell on a cycle of selected edges is on an unavoidable cycle: #CIRC!; a cell that reaches one: an error;
    * a cell whose static cycles (selected or not) all have every lazy branch unselected must have its lazy value
      ("a cycle that closes only through such branches, none of them selected, does resolve");
    * a cell on (or reaching) a static cycle that is avoided but has SOME selected lazy branch is left open by the
      statement: the lazy value or the circular error are both accepted (returned as ('AMB', value))."""
    act = {i: [j for j, f in enumerate(mat[i]) if f and active(f, g, h, g2) and not (f == 11 and g and ifs_unread)] for i in range(3)}
    stat = {i: [j for j, f in enumerate(mat[i]) if f] for i in range(3)}
    lazy = lambda i, j: mat[i][j] in (2, 5, 6, 7, 8, 9, 10, 12)

    def reach(graph, i):
        seen, todo = set(), list(graph[i])
        while todo:
            x = todo.pop()
            if x not in seen:
                seen.add(x)
                todo.extend(graph[x])
        return seen
    Rc = {i: reach(act, i) for i in range(3)}
    circ = {i for i in range(3) if i in Rc[i]}
    # values travel along the edges that are really read: a later test of IFS (form 11) is skipped once an earlier test holds,
    # although a cycle through it counts as unavoidable (tests are not lazy branches)
    actv = {i: [j for j in act[i] if not (mat[i][j] == 11 and g)] for i in range(3)}
    R = {i: reach(actv, i) for i in range(3)}
    # static simple cycles (3 nodes: brute force over node sequences)
    amb = set()
    for n in (1, 2, 3):
        for seq in itertools.permutations(range(3), n):
            edges = [(seq[k], seq[(k + 1) % n]) for k in range(n)]
            if all(b in stat[a] for a, b in edges):
                sel = [e for e in edges if lazy(*e) and e[1] in act[e[0]]]
                unsel = [e for e in edges if e[1] not in act[e[0]]]
                if unsel and sel:
                    amb.update(seq)
    val = {}

    def ev(i):
        if i not in val:
            if i in circ:
                val[i] = CIRC
            else:
                cs = [contrib(i, j) for j in range(3) if mat[i][j]]
                val[i] = float(i + 1 + sum(cs)) if all(isinstance(c, float) for c in cs) else 'ERR'
        return val[i]

    def contrib(i, j):
        f = mat[i][j]
        if f == 11:                       # IFS(G1,1,X>0,2,TRUE,3)
            if g:
                return 1.0
            x = ev(j)
            return (2.0 if x > 0 else 3.0) if isinstance(x, float) else 'ERR'
        if f == 12:                       # IFS(NOT(G1),1,TRUE,X)
            return ev(j) if g else 1.0
        if f == 13:                       # IFERROR(X,7): the error of the cell read is absorbed
            x = ev(j)
            return x if isinstance(x, float) else 7.0
        return ev(j) if j in act[i] else 0.0
    for i in range(3):
        ev(i)
    for i in range(3):
        if isinstance(val[i], float) and (i in amb or R[i] & amb):
            val[i] = ('AMB', val[i])
        elif isinstance(val[i], float) and Rc[i] & circ:
            val[i] = ('AMB', val[i])        # reads a circular cell only through a test of IFS that is never reached: a dependent, so the error may show
    if amb and any(f == 13 for row in mat for f in row):
        return None         # an absorbed error next to a cycle the statement leaves open: more than two admissible values, not judged
    return val


def stable_oracle(mat, g, h, g2=None):
    strict = oracle(mat, g, h, g2)
    if not (g and any(f == 11 for row in mat for f in row)):
        return strict
    # A later test of IFS behind a test that holds is never read.  Whether a cycle through such a test "can be avoided" is not
    # settled by the statement (the library cannot cut a cycle at a test, but it can cut the same cycle at a lazy branch of
    # another cell and then never reads the test): the circular marking and the ordinary value are both accepted.
    lenient = oracle(mat, g, h, g2, ifs_unread=True)
    if strict is None or lenient is None or (strict != lenient and any(f == 13 for row in mat for f in row)):
        return None
    out = {}
    for i in range(3):
        a, b = strict[i], lenient[i]
        if a == b:
            out[i] = a
        elif isinstance(b, float):
            out[i] = ('AMB', b)
        elif isinstance(b, tuple):
            out[i] = b
        else:
            out[i] = 'ERR'          # judged as: the circular error or any error
    return out


class Hang(Exception):
    pass


def _alarm(*a):
    raise Hang()


def calc(d, order=None, seam=None):
    import formulas
    from formulas.tokens.operand import XlError
    if order is not None:
        items = list(d.items())
        d = dict(items[i] for i in order)
    import formulas.excel.cycle as cyc
    orig = cyc.simple_cycles
    if seam is not None:
        def patched(graph, *a, **kw):
            res = [list(c) for c in orig(graph, *a, **kw)]
            if kw.get('skip_nodes') is None and not a[1:]:
                pass
            res = seam(res)
            return iter(res)
        cyc.simple_cycles = patched
    old = signal.signal(signal.SIGPROF, _alarm)
    signal.setitimer(signal.ITIMER_PROF, 60)     # CPU time, not wall time: independent of machine load
    try:
        m = formulas.ExcelModel().from_dict(d, assemble=False)
        m.finish(complete=False, circular=True)
        s = m.calculate()
    finally:
        signal.setitimer(signal.ITIMER_PROF, 0)
        signal.signal(signal.SIGPROF, old)
        cyc.simple_cycles = orig
    return read_solution(s)


def read_solution(s):
    import formulas
    from formulas.tokens.operand import XlError
    out = {}
    for c in CELLS + ['D1', 'E1', 'F1', 'K2']:
        v = s.get(P + c)
        if v is None:
            out[c] = None
            continue
        v = v.value[0, 0]
        if v is formulas.ERR_CIRCULAR:
            out[c] = CIRC
        elif isinstance(v, XlError):
            out[c] = 'ERR'
        elif isinstance(v, (bool, __import__('numpy').bool_)):
            out[c] = bool(v)
        else:
            out[c] = float(v)
    return out


def judge(got, exp, desc, fails, label):
    for i, c in enumerate(CELLS):
        a, b = got[c], exp[i]
        if isinstance(b, tuple):          # left open by the statement: the lazy value, or the circular error / an error
            ok = a == b[1] or a in (CIRC, 'ERR')
        else:
            ok = (a == CIRC) if b == CIRC else (a in (CIRC, 'ERR')) if b == 'ERR' else (a == b)
        if not ok:
            fails.append(Fail('cell-value', got='%s=%s' % (c, a), exp='%s=%s' % (c, b), path=label, **desc))
            return
    # dependents are judged against what A1 actually is (already judged above)
    a = got['A1']
    want = {'D1': a + 100 if isinstance(a, float) else 'ERR', 'E1': a if isinstance(a, float) else 7.0, 'F1': not isinstance(a, float), 'K2': 10.0}
    for c, w in want.items():
        x = got[c]
        ok = (x in (CIRC, 'ERR')) if w == 'ERR' else x == w
        if not ok:
            fails.append(Fail('dependent', got='%s=%s' % (c, x), exp='%s=%s' % (c, w), path=label, **desc))
            return


def run_wb(case):
    _, flat, g, h, sched = case[:5]
    g2 = case[5] if len(case) > 5 else None
    mat = [flat[0:3], flat[3:6], flat[6:9]]
    exp = stable_oracle(mat, g, h, g2)
    if exp is None:
        return result(0, ['skip:oracle-order-dependent'])
    desc = dict(mat=json.dumps(flat), g=g, h=h, g2=g2)
    fails, oc, ex = [], [], 0
    d = wb_dict(mat, g, h, g2)
    named = any(f == 4 for f in flat)
    # names: only the documented file path (from_dict wires name inverses before cycles are analysed)
    runs = [] if named else [('default', None, None)]
    if named or sched:
        runs.append(('file', 'file', None))
    if sched and not named:
        n = len(d)
        runs += [('dict:rev', list(range(n))[::-1], None)] + [('dict:rot%d' % r, list(range(r, n)) + list(range(r)), None) for r in (1, 3, 5)]

        def mk(perm_kind):
            def seam(cycles):
                if perm_kind == 'rev':
                    return cycles[::-1]
                if perm_kind == 'rot':
                    return [c[1:] + c[:1] for c in cycles]
                if perm_kind == 'rot2':
                    return [c[2:] + c[:2] for c in cycles][::-1]
                if perm_kind == 'sortlen':
                    return sorted(cycles, key=lambda c: (-len(c), c))
                return cycles
            return seam
        runs += [('cycles:' + k, None, mk(k)) for k in ('rev', 'rot', 'rot2', 'sortlen')]
    for label, order, seam in runs:
        ex += 1
        try:
            got = calc_file(mat, g, h, g2) if order == 'file' else calc(d, order, seam)
        except Hang:
            fails.append(Fail('hang', got='no result after 60 s of CPU time', exp='termination', path=label, **desc))
            continue
        except Exception as e:
            fails.append(Fail('escape', got=type(getattr(e, 'ex', e)).__name__ + ':' + str(e)[:80], exp='a solution', path=label, **desc))
            continue
        judge(got, exp, desc, fails, label)
    kinds = ''.join('C' if exp[i] == CIRC else 'E' if exp[i] == 'ERR' else 'a' if isinstance(exp[i], tuple) else 'n' for i in range(3))
    return result(ex, ['wb:' + kinds], fails)


def all_perm_seam_cases(tier):
    """all permutations of the cycle list for workbooks with <= 4 cycles (direct edges only)."""
    for flat in itertools.product((0, 1), repeat=9):
        if sum(flat) in (3, 4, 5) and (tier == 'thorough' or sum(flat) == 4):
            yield ['wbperm', list(flat)]


def run_wbperm(case):
    _, flat = case
    mat = [flat[0:3], flat[3:6], flat[6:9]]
    exp = stable_oracle(mat, True, True)
    if exp is None:
        return result(0, ['skip:oracle-order-dependent'])
    d = wb_dict(mat, True, True)
    desc = dict(mat=json.dumps(flat), g=True, h=True)
    import formulas
    n_cyc = [0]

    def count(cycles):
        n_cyc[0] = len(cycles)
        return cycles
    fails, ex = [], 1
    try:
        calc(d, None, count)
    except Exception as e:
        return result(1, ['wbperm:escape'], [Fail('escape', got=type(e).__name__, exp='a solution', path='count', **desc)])
    n = n_cyc[0]
    if n > 5:
        return result(1, ['skip:many-cycles'])
    for p in itertools.permutations(range(n)):
        ex += 1

        def seam(cycles, p=p):
            # solve_circular calls simple_cycles once on the model graph; cell-level calls see other lists
            return [cycles[i] for i in p] if len(cycles) == len(p) else cycles
        try:
            got = calc(d, None, seam)
        except Exception as e:
            fails.append(Fail('escape', got=type(e).__name__, exp='a solution', path='cycles:perm%s' % (p,), **desc))
            continue
        judge(got, exp, desc, fails, 'cycles:perm%s' % (p,))
    return result(ex, ['wbperm:%d' % n], fails)


def wb_cases(tier):
    q = tier == 'quick'
    for flat in itertools.product((0, 1, 2), repeat=9):
        idx = sum(f * 3 ** k for k, f in enumerate(flat))
        for g in ((bool(idx % 2),) if q else (True, False)):
            yield ['wb', list(flat), g, False, (idx % (97 if q else 11) == 0)]
    # two independent guards: every workbook over {absent, direct, IF(G1), IF(G2)} on the 6 non-self edges with the guards disagreeing
    offd = [k for k in range(9) if k // 3 != k % 3]
    for n_, forms in enumerate(itertools.product((0, 1, 2, 8), repeat=6)):
        if 2 not in forms or 8 not in forms or (q and n_ % 3):
            continue
        flat = [0] * 9
        for k, f in zip(offd, forms):
            flat[k] = f
        for g, g2 in ((True, False), (False, True)):
            yield ['wb', flat, g, False, n_ % 40 == 0, g2]
    # extended edge forms as deviations from every direct/absent graph on the 6 non-self edges
    offdiag = [k for k in range(9) if k // 3 != k % 3]
    for bits in range(64):
        base = [0] * 9
        for t, k in enumerate(offdiag):
            if bits >> t & 1:
                base[k] = 1
        for m in (1,) if q else (1, 2):
            for pos in itertools.combinations(offdiag, m):
                for forms in itertools.product((3, 4, 5, 6, 7, 9, 10, 11, 12), repeat=m):
                    flat = list(base)
                    for k, f in zip(pos, forms):
                        flat[k] = f
                    for g in (True, False):
                        for h in (True, False):
                            yield ['wb', flat, g, h, False]



    # an error-absorbing eager reader (form 13) alone and next to a test of IFS, on graphs without any lazy branch
    for bits in range(64):
        base = [0] * 9
        for t, k in enumerate(offdiag):
            if bits >> t & 1:
                base[k] = 1
        for m, fsets in ((1, ((13,),)), (2, ((11, 13), (13, 11), (13, 13)))):
            for pos in itertools.combinations(offdiag, m):
                for forms in fsets:
                    flat = list(base)
                    for k, f in zip(pos, forms):
                        flat[k] = f
                    for g in (True, False):
                        yield ['wb', flat, g, False, False]


    # the eager error-absorbing reader on a cycle that closes through a SELECTED lazy branch of the other cell (recorded finding:
    # the circular error appears at the cell that owns the branch only, and IFERROR intercepts it on its way round the cycle)
    for lazyform in (2, 12):
        yield ['wb', [0, 0, 0, 0, 0, lazyform, 0, 13, 0], True, False, False]


# ------------------------------------------------------------ real hash seeds
def seed_family():
    fam = []
    for flat in itertools.product((0, 1, 2), repeat=9):
        idx = sum(f * 3 ** k for k, f in enumerate(flat))
        if idx % 41 == 0:
            fam.append((list(flat), True, False, None))
    offd = [k for k in range(9) if k // 3 != k % 3]
    for n_, forms in enumerate(itertools.product((0, 2, 8), repeat=6)):
        if 2 in forms and 8 in forms and n_ % 2 == 0:
            flat = [0] * 9
            for k, f in zip(offd, forms):
                flat[k] = f
            fam.append((flat, True, False, False))
            fam.append((flat, False, False, True))
    return fam


def seed_worker():
    from mc import core
    core.bind_repo()
    out = {}
    for i, (flat, g, h, g2) in enumerate(seed_family()):
        mat = [flat[0:3], flat[3:6], flat[6:9]]
        try:
            out[i] = calc(wb_dict(mat, g, h, g2))
        except Exception as e:
            out[i] = 'exc:' + type(e).__name__
    print('SEEDRESULT ' + json.dumps(out, sort_keys=True, default=str))


def run_seed(case):
    _, seed = case
    env = dict(os.environ, PYTHONHASHSEED=str(seed))
    r = subprocess.run([sys.executable, '-W', 'ignore', '-c', 'import sys; sys.path.insert(0, %r); from checks import c10; c10.seed_worker()' % VERIF],
                       capture_output=True, text=True, env=env, cwd=VERIF, timeout=3000)
    line = [l for l in r.stdout.splitlines() if l.startswith('SEEDRESULT ')]
    if not line:
        return result(0, ['seed-harness-error'], [Fail('harness-exception', got=(r.stderr or r.stdout)[-500:], exp='SEEDRESULT', seed=seed)])
    res = result(len(seed_family()), ['seed-run'], [])
    res['seedres'] = line[0][len('SEEDRESULT '):]
    return res


# ------------------------------------------------------------ a cycle that runs through a multi-cell range which also holds cells that are
# not on the cycle, at the end of dependency chains of every length: those cells keep the value they have without the cyclic cells
def rangecycle_dict(layout, n, with_cycle=True):
    d = {P + 'Z%d' % n: 1}
    for i in range(1, n):
        d[P + 'Z%d' % i] = '=%sZ%d+1' % (P, i + 1)
    chain = '=%sZ1+1' % P
    if layout == 0:      # A3 = SUM(A1:A2), A1 = A3+1; A2 is the chain end inside the range
        d.update({P + 'A2': chain, P + 'E1': '=%sA2+1' % P})
        cyc = {P + 'A1': '=%sA3+1' % P, P + 'A3': '=SUM(%sA1:A2)' % P}
    elif layout == 1:    # A1 = SUM(B1:B3)+1, B1 = A1*2; B2 chain end, B3 constant
        d.update({P + 'B2': chain, P + 'B3': 4, P + 'E1': '=%sB2+%sB3' % (P, P)})
        cyc = {P + 'A1': '=SUM(%sB1:B3)+1' % P, P + 'B1': '=%sA1*2' % P}
    elif layout == 2:    # the range is read inside a selected IF branch
        d.update({P + 'A3': chain, P + 'E1': '=%sA3*2' % P})
        cyc = {P + 'A1': '=IF(TRUE,SUM(%sA2:A3),0)' % P, P + 'A2': '=%sA1+1' % P}
    else:                # a 2-D block: cycle cell in one corner, chain ends in the others
        d.update({P + 'B1': chain, P + 'A2': '=%sB1+1' % P, P + 'B2': 7, P + 'E1': '=%sA2+%sB2' % (P, P)})
        cyc = {P + 'A1': '=%sC1+1' % P, P + 'C1': '=SUM(%sA1:B2)' % P}
    if with_cycle:
        d.update(cyc)
    return d, sorted(k for k in cyc), sorted(k for k in d if k not in cyc)


def guarded(fn):
    old = signal.signal(signal.SIGPROF, _alarm)
    signal.setitimer(signal.ITIMER_PROF, 60)     # CPU time, not wall time
    try:
        return fn()
    finally:
        signal.setitimer(signal.ITIMER_PROF, 0)
        signal.signal(signal.SIGPROF, old)


def rangecycle_cases(tier):
    for layout in range(4):
        for n in range(1, 9 if tier == 'quick' else 14):
            yield ['rangecycle', layout, n]


def run_rangecycle(case):
    _, layout, n = case
    import formulas, numpy as np
    from xl.evalcell import classify, exc_name
    fails = []
    desc = dict(layout=layout, chain=n)
    val = lambda sol, k: classify(np.asarray(sol[k].value, object).ravel()[0]) if k in sol else None
    try:
        d, cyc, plain = rangecycle_dict(layout, n)
        sol = guarded(lambda: formulas.ExcelModel().from_dict(dict(d), assemble=False).finish(complete=False, circular=True).calculate())
        d0, _, _ = rangecycle_dict(layout, n, False)
        ref = formulas.ExcelModel().from_dict(dict(d0), assemble=False).finish(complete=False, circular=True).calculate()
    except Exception as e:
        return result(1, ['rangecycle:escape'], [Fail('escape', got='%s:%s' % (exc_name(e), str(e)[:80]), exp='terminates with a solution', **desc)])
    for k in cyc:
        v = val(sol, k)
        if v is None or v[0] != 'e':
            fails.append(Fail('cell-value', got='%s=%s' % (k[len(P):], v), exp='%s=CIRC' % k[len(P):], **desc))
    for k in plain:
        v, e = val(sol, k), val(ref, k)
        if v != e:
            fails.append(Fail('cell-value', got='%s=%s' % (k[len(P):], v), exp='%s=%s' % (k[len(P):], e), **desc))
    return result(2, ['rangecycle:%d' % layout], fails[:4])


def run_case(case):
    k = case[0]
    if k == 'rangecycle':
        return run_rangecycle(case)
    if k == 'graphs':
        return run_graphs(case)
    if k == 'wb':
        return run_wb(case)
    if k == 'wbperm':
        return run_wbperm(case)
    if k == 'seed':
        return run_seed(case)
    if k == 'seedpair':
        a, b = run_seed(['seed', case[1]]), run_seed(['seed', case[2]])
        ra, rb = json.loads(a['seedres']), json.loads(b['seedres'])
        fails = [Fail('seed-dependent', got=rb[x], exp=ra[x], wb=x, seeds='%d,%d' % (case[1], case[2])) for x in ra if ra[x] != rb.get(x)]
        return result(2 * len(ra), ['seedpair'], fails[:5])
    raise ValueError(case)


def run(ctx):
    ctx.explore(run_case, graph_cases(ctx.tier), chunksize=1, label='digraphs')
    ctx.explore(run_case, wb_cases(ctx.tier), chunksize=32, label='workbooks')
    ctx.explore(run_case, all_perm_seam_cases(ctx.tier), chunksize=2, label='cycle_order_permutations')
    ctx.explore(run_case, rangecycle_cases(ctx.tier), chunksize=1, label='cycles_through_ranges_with_bystanders')
    from mc.core import pmap
    seeds = list(range(8 if ctx.tier == 'quick' else 32))
    outs = {}
    for case, r in pmap(run_case, [['seed', s] for s in seeds], 1):
        outs[case[1]] = r.pop('seedres', None)
        ctx.add(case, r)
    base = json.loads(outs[0]) if outs.get(0) else {}
    for s in seeds[1:]:
        other = json.loads(outs[s]) if outs.get(s) else {}
        for k in base:
            if base[k] != other.get(k):
                ctx.fail(['seedpair', 0, s], Fail('seed-dependent', got=other.get(k), exp=base[k], wb=k, seeds='0,%d' % s))
                break
    ctx.extra['hash_seeds'] = seeds
    return {}
