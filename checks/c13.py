"""C13 Volatile functions are never frozen and are seen consistently.
Engines E2 (histories of clock advances and evaluations) + E3 (clock and RNG seams)."""
import itertools, json, datetime as _dt
from mc.core import Fail, result
from ref import grammar as G
from ref.values import *

MANIFEST = {
    'engine': 'E3',
    'technique': 'exhaustive enumeration of (formula with a volatile call at every leaf position, way of obtaining an executable, history of clock advances/evaluations) under a harness-owned clock and RNG with a twin random stream',
    'text': 'Every expression tree with <= 2 operators and every wrapper call (IF, SUM, IFERROR, ROUND, nested) with NOW(), TODAY(), RAND() or RANDBETWEEN() at every leaf position '
            'is turned into an executable through every builder (Parser compile, Cell compile, dictionary model, file model, deep copy, JSON round trip, ExcelModel.compile with the '
            'volatile cell upstream of, downstream of and unrelated to the inputs) and evaluated along every history of length <= 4 (thorough 6) over {advance 1 s, advance 1 day, evaluate}. '
            'The wall clock is a fake datetime module bound into the library, the RNG is seeded and a twin stream predicts every draw: each evaluation must show the clock of that '
            'evaluation and consume exactly one fresh draw per random call site; diamonds of dependents must see one single value. RANDBETWEEN is also called 40 times on each of 17 bound pairs (integer, fractional, empty, invalid). The builders are also composed: origin (dictionary, file) > every sequence of <= 2 of {deep copy, JSON round trip, dill round trip, a calculation} | use (calculate, the three compile forms, a compiled function deep-copied or dill-copied); dill chains run in a forked child (dill.loads rebinds library globals) and judge random draws by variation instead of the twin stream. NOW/TODAY workbooks are also run from 23:59:58.6 on 31 Dec (sub-second clock across midnight and year end).' ' Later additions: composed origins (up to two of deepcopy / JSON / dill / calculate, dill in a forked child), a sub-second clock at year end, steps of 31 and 365 days, formulas that also use defined names, the same volatile call twice in one formula.',
    'note': 'Trusted: the fake clock and twin RandomState in this file, ref/scalar.py for the surrounding arithmetic. RANDBETWEEN values are judged for range, integrality and freshness (draw consumed), not the exact value.',
}
RULE = 'case = (program, builder) with all histories run inside; non-trivial = evaluated at least twice with the clock advanced; distinct = case key'
ASSUMPTIONS = ['with a sub-second clock NOW may truncate or round to the second (1 s tolerance); whole-second clocks are matched to 1E-9 day', 'dill chains: RAND/RANDBETWEEN are judged by range and by variation over the evaluations of the case (the seed seam does not survive dill.loads); calendar correctness of the serial is C20 (here the serial is computed by plain day arithmetic for 2026-2027 dates)']

T0 = (2026, 3, 14, 9, 26, 53)
T1 = (2026, 12, 31, 23, 59, 58, 600000)      # sub-second clock next to midnight and to the end of the year: 's' gives 23:59:59.6, then 00:00:00.6


def clock_ok(got, want, now):
    """NOW/TODAY against the harness clock: exact for a whole-second clock, within one second when the clock shows
    a fraction of a second (truncating and rounding implementations are both right)"""
    if got[0] != 'n':
        return False
    tol = 1e-9 if not now.microsecond else 1.0 / 86400 + 1e-9
    return abs(got[1] - want) <= tol
VOL = {'NOW': 'NOW()', 'TODAY': 'TODAY()', 'RAND': 'RAND()', 'RB': 'RANDBETWEEN(1,1000)'}


class Clock:
    now = _dt.datetime(*T0)


def install_clock():
    import types, datetime, formulas.functions.date as D

    class FakeDT(datetime.datetime):
        @classmethod
        def now(cls, tz=None):
            return Clock.now
    ns = types.SimpleNamespace(**{k: getattr(datetime, k) for k in dir(datetime) if not k.startswith('__')})
    ns.datetime = FakeDT
    D.datetime = ns
    D.DEFAULT_DATE[0] = 2026


def serial(now, kind):
    days = (now.date() - _dt.date(1899, 12, 30)).days
    if kind == 'TODAY':
        return float(days)
    return days + (now.hour * 3600 + now.minute * 60 + now.second + now.microsecond / 1e6) / 86400.0


def histories(maxlen, steps='sde'):
    """all sequences over {s, d, e} (+ m: 31 days later, y: 365 days later - same day of the month in another month / year)
    that end with an evaluation and hold >= 2 evaluations."""
    for n in range(2, maxlen + 1):
        for h in itertools.product(steps, repeat=n):
            if h[-1] == 'e' and h.count('e') >= 2:
                yield ''.join(h)


# ------------------------------------------------------------ programs
def programs(tier):
    nums = [G.leaf('3', N(3)), G.leaf('5', N(5)), G.leaf('7', N(7))]
    from checks.c01 import nleaves, replace_leaf, has_pctpct
    out = []
    for kind in VOL:
        v = G.leaf(VOL[kind], None)
        out.append((kind, 'top', v))
        for n in (1, 2):
            for t, _ in G.trees(n, nums):
                if has_pctpct(t):
                    continue
                for i in range(nleaves(t)):
                    out.append((kind, 'tree', replace_leaf(t, i, v)))
        for w in ('IF(TRUE,%s,0)', 'IF(FALSE,0,%s)', 'SUM(%s,1)', 'IFERROR(%s,0)', 'ROUND(%s,9)', 'SUM(1,IF(TRUE,%s+2,0))', 'IFERROR(1/0,%s)', 'MAX(%s,0)', '(%s)', '-(-(%s))'):
            out.append((kind, 'wrap', w))
        # the same volatile call written twice (and three times) in one formula: every occurrence is fresh
        for w in ('%s+%s', 'IF(%s>0,%s,0)', 'SUM(%s,%s)', '(%s+%s+%s)/3*2', 'MAX(%s,1)+MIN(%s,1E+9)'):
            out.append((kind, 'wrap', w))
    return out


def prog_text(p):
    kind, k, x = p
    if k == 'wrap':
        return x.replace('%s', VOL[kind])
    return G.spell(x, 'safe')


def expected(p, vol_value):
    """reference value of the program given the volatile call's value (None: not predicted)."""
    kind, k, x = p
    v = N(vol_value)
    if k == 'wrap':
        w = x
        if w in ('IF(TRUE,%s,0)', 'IF(FALSE,0,%s)', 'IFERROR(%s,0)', 'IFERROR(1/0,%s)', '(%s)', '-(-(%s))'):
            return v
        if w == 'SUM(%s,1)':
            return N(vol_value + 1)
        if w == 'SUM(1,IF(TRUE,%s+2,0))':
            return N(vol_value + 3)
        if w == 'ROUND(%s,9)':
            return N(round(vol_value, 9))
        if w == 'MAX(%s,0)':
            return N(max(vol_value, 0))
        if kind in ('NOW', 'TODAY'):          # clock calls repeated in one formula all show the clock of the evaluation
            if w in ('%s+%s', 'SUM(%s,%s)', '(%s+%s+%s)/3*2'):
                return N(2 * vol_value)
            if w == 'IF(%s>0,%s,0)':
                return v
            if w == 'MAX(%s,1)+MIN(%s,1E+9)':
                return N(2 * vol_value)
        return None

    def sub(t):
        if t[0] == 'leaf':
            return ('leaf', t[1], v) if t[2] is None else t
        if t[0] == 'bin':
            return ('bin', t[1], sub(t[2]), sub(t[3]))
        return (t[0], sub(t[1]))
    r = G.evaluate(sub(x))
    if r is None or len(r) != 1:
        return None
    (r,) = r
    return None if r == 'REALROOT' else r


def cases(tier):
    from checks.c01 import tree_from
    progs = programs(tier)
    for i, p in enumerate(progs):
        for b in ('parser', 'cell'):
            yield ['formula', [p[0], p[1], p[2]], b]
    for kind in VOL:
        for b in ('dict', 'file', 'deepcopy', 'json', 'compile-up', 'compile-down', 'compile-unrelated', 'array', 'array2d-file', 'name', 'vname', 'vname-file', 'vname-json', 'namevol', 'namevol-file', 'namevol-json', 'namevol-compile'):
            yield ['workbook', kind, b]
    for i in range(len(RB_ARGS)):
        for b in ('parser', 'cell'):
            yield ['rbargs', i, b]
    # every way of obtaining the executable composed: origin > up to two transformations | use
    for kind in VOL:
        for origin in ('dict', 'file'):
            for n in (0, 1, 2):
                for tr in itertools.product(TRANSFORMS, repeat=n):
                    for use in USES:
                        if n == 0 and use in ('calculate', 'compile-up', 'compile-down', 'compile-unrelated'):
                            continue            # already among the plain builders above
                        yield ['workbook', kind, 'chain:' + '>'.join((origin,) + tr) + '|' + use]


TRANSFORMS = ('deepcopy', 'json', 'dill', 'calc')
USES = ('calculate', 'compile-up', 'compile-down', 'compile-unrelated', 'compile-up+fcopy', 'compile-down+fdill')


def get_prog(spec):
    from checks.c01 import tree_from
    kind, k, x = spec
    return (kind, k, x if k == 'wrap' else tree_from(x))


def run_formula(case):
    _, pspec, builder = case
    import numpy as np
    import schedula as sh
    import formulas
    from formulas.cell import Cell
    from xl.evalcell import classify, exc_name
    install_clock()
    p = get_prog(pspec)
    kind = p[0]
    text = '=' + prog_text(p)
    maxlen = 4
    fails, oc, ex = [], set(), 0
    desc = dict(kind=kind, builder=builder, formula=text, shape=p[1])
    try:
        if builder == 'parser':
            func = formulas.Parser().ast(text)[1].compile()
            ev = lambda: func()
        else:
            dsp = sh.Dispatcher()
            cell = Cell('A1', text).compile()
            cell.add(dsp)
            ev = lambda: dsp()[cell.output].value
    except Exception as e:
        return result(1, ['build-escape'], [Fail('build-escape', got=exc_name(e), exp='an executable', **desc)])
    for h in histories(maxlen):
        Clock.now = _dt.datetime(*T0)
        np.random.seed(12345)
        twin = np.random.RandomState(12345)
        seen = []
        for step in h:
            if step == 's':
                Clock.now += _dt.timedelta(seconds=1)
            elif step == 'd':
                Clock.now += _dt.timedelta(days=1)
            else:
                ex += 1
                before = np.random.get_state()[2]
                try:
                    got = classify(np.asarray(ev(), object).ravel()[0])
                except Exception as e:
                    fails.append(Fail('escape', got=exc_name(e), exp='a value', hist=h, **desc))
                    break
                if kind in ('RAND', 'RB') and text.count(VOL[kind]) > 1:
                    # the call is written several times: one shared draw or one draw per occurrence are both fine; at least one fresh draw
                    if np.random.get_state()[2] == before:
                        fails.append(Fail('frozen-or-wrong-draw', got='no draw consumed', exp='a fresh draw', hist=h, **desc))
                        break
                    twin.set_state(np.random.get_state())
                    oc.add('%s:%s' % (kind, got[0] if got[0] != 'e' else got[1]))
                    continue
                if kind in ('NOW', 'TODAY'):
                    vv = serial(Clock.now, kind)
                    exp = expected(p, vv)
                    if exp is not None and not (got == exp or close(got, exp, 1e-11)):      # one second is 2.5E-10 of a 2026 serial
                        fails.append(Fail('stale-or-wrong-clock', got=got, exp=exp, hist=h, clock=str(Clock.now), **desc))
                        break
                elif kind == 'RAND':
                    d = float(twin.rand())
                    exp = expected(p, d)
                    if exp is not None and not (got == exp or close(got, exp, 1e-12)):
                        fails.append(Fail('frozen-or-wrong-draw', got=got, exp=exp, hist=h, **desc))
                        break
                    if exp is None:
                        st = np.random.get_state()[2]
                        if st != twin.get_state()[2]:
                            fails.append(Fail('draw-count', got='rng position %s' % st, exp='position %s' % twin.get_state()[2], hist=h, **desc))
                            break
                else:
                    twin.rand()
                    if np.random.get_state()[2] != twin.get_state()[2]:
                        fails.append(Fail('draw-count', got='rng position %s' % np.random.get_state()[2], exp='one draw per evaluation', hist=h, **desc))
                        break
                    seen.append(got)
                oc.add('%s:%s' % (kind, got[0] if got[0] != 'e' else got[1]))
        if kind == 'RB' and p[1] in ('top',) and seen:
            for g in seen:
                if not (g[0] == 'n' and g[1] == int(g[1]) and 1 <= g[1] <= 1000):
                    fails.append(Fail('randbetween-range', got=g, exp='integer in [1, 1000]', hist=h, **desc))
                    break
        if fails:
            break
    return result(ex, sorted(oc), fails[:3])


# ------------------------------------------------------------ workbooks
P = "'[b.xlsx]S'!"


def wb_dict(kind):
    v = VOL[kind]
    return {P + 'A1': '=' + v, P + 'B1': '=%sA1+1' % P, P + 'C1': '=%sA1*2' % P, P + 'D1': '=%sB1+%sC1' % (P, P), P + 'K1': 5, P + 'K2': '=%sK1*2' % P,
            P + 'E1': '=%sK1+%sA1' % (P, P), P + 'F1': '=IF(%sK1>0,%s+%sK1,0)' % (P, v, P)}


def run_workbook(case):
    _, kind, builder = case
    import copy, os
    import numpy as np
    import formulas
    from xl.evalcell import classify, exc_name
    from xl.wbspec import Scratch
    install_clock()
    fails, oc, ex = [], set(), 0
    desc = dict(kind=kind, builder=builder)
    d = wb_dict(kind)
    if builder == 'array':
        d = {P + 'A1:A2': '=%s+{0;0}' % VOL[kind], P + 'B1': '=%sA1+1' % P, P + 'C1': '=%sA2*2' % P, P + 'D1': '=%sB1+%sC1' % (P, P), P + 'K1': 5}
    if builder == 'array2d-file':
        # a two-column array-formula block whose spill cells hold stale cached values in the file; A1 shows a spill cell of the second column
        d = dict(d)
        d[P + 'M1:N2'] = '=%s+{0,0;0,0}' % VOL[kind]
        d[P + 'A1'] = '=%sN2' % P
        d[P + 'C1'] = '=%sM1*2' % P
    if builder.startswith('namevol'):
        # the formula that holds the volatile call also refers to a defined name (of a cell / of a range)
        d = dict(d)
        d["'[b.xlsx]'!KNAME"] = '=%sK1' % P
        d["'[b.xlsx]'!KRNG"] = '=%sK1:K2' % P
        d[P + 'A1'] = "=%s+0*'[b.xlsx]'!KNAME+0*SUM('[b.xlsx]'!KRNG)" % VOL[kind]
    if builder == 'name':
        d = dict(d)
        d["'[b.xlsx]'!VNAME"] = '=%sA1' % P
        d[P + 'C1'] = "='[b.xlsx]'!VNAME*2"
    if builder.startswith('vname'):
        # the volatile call lives in a defined name (no cell reference inside the name); A1 merely shows it
        d = dict(d)
        d["'[b.xlsx]'!VOLNAME"] = '=' + VOL[kind]
        d[P + 'A1'] = "='[b.xlsx]'!VOLNAME"
    A1, B1, C1, D1, K1, K2, E1, F1 = (P + c for c in ('A1', 'B1', 'C1', 'D1', 'K1', 'K2', 'E1', 'F1'))
    chain, use = None, None
    rng_seam = 'dill' not in builder          # after dill.loads the library draws from a private copy of the random state
    if not rng_seam:
        np.random.seed(4242)                  # the private copy is taken from this state: deterministic all the same
    draws = []
    if builder.startswith('chain:'):
        chain, use = builder[6:].split('|')
        chain = chain.split('>')
        builder = chain[0]
        chain = chain[1:]
    try:
        if builder in ('file', 'vname-file', 'array2d-file', 'namevol-file'):
            import openpyxl
            wb = openpyxl.Workbook()
            ws = wb.active
            ws.title = 'S'
            from openpyxl.workbook.defined_name import DefinedName
            for k, v in d.items():
                if not k.startswith(P):
                    wb.defined_names[k.split('!')[1]] = DefinedName(k.split('!')[1], attr_text=v[1:])
                    continue
                if ':' in k:
                    from openpyxl.worksheet.formula import ArrayFormula
                    ref = k[len(P):]
                    ws[ref.split(':')[0]] = ArrayFormula(ref, v.replace(P, ''))
                    for stale in ('N1', 'M2', 'N2'):
                        ws[stale] = 999.5          # what Excel cached there when the file was saved
                    continue
                ws[k[len(P):]] = v.replace(P, '').replace("'[b.xlsx]'!", '') if isinstance(v, str) else v
            with Scratch() as tmp:
                wb.save(os.path.join(tmp, 'b.xlsx'))
                m = formulas.ExcelModel().loads(os.path.join(tmp, 'b.xlsx')).finish()
        else:
            m = formulas.ExcelModel().from_dict(d)
        if builder == 'deepcopy':
            m.calculate()
            m = copy.deepcopy(m)
        if builder in ('json', 'vname-json', 'namevol-json'):
            m = formulas.ExcelModel().from_dict(json.loads(json.dumps(m.to_dict())))
        for t in chain or ():
            if t == 'deepcopy':
                m = copy.deepcopy(m)
            elif t == 'json':
                m = formulas.ExcelModel().from_dict(json.loads(json.dumps(m.to_dict())))
            elif t == 'dill':
                import dill
                m = dill.loads(dill.dumps(m))
            else:
                m.calculate()
        fpost = lambda f: f
        if use is not None:
            builder = use.split('+')[0]
            if use.endswith('+fcopy'):
                fpost = copy.deepcopy
            elif use.endswith('+fdill'):
                import dill
                fpost = lambda f: dill.loads(dill.dumps(f))
        if builder == 'namevol-compile':
            builder = 'compile-up'
        if builder == 'compile-up':           # volatile upstream of the outputs, input unrelated constant
            f = fpost(m.compile([K1], [A1, B1, C1, D1]))
            ev = lambda: dict(zip(['A1', 'B1', 'C1', 'D1'], f(5)))
        elif builder == 'compile-down':       # output depends on the input and on the volatile cell
            f = fpost(m.compile([K1], [E1, A1]))
            ev = lambda: dict(zip(['E1', 'A1'], f(5)))
        elif builder == 'compile-unrelated':  # volatile cell not connected to the requested output at all; a second output is volatile inside an IF
            f = fpost(m.compile([K1], [K2, F1]))
            ev = lambda: dict(zip(['K2', 'F1'], f(5)))
        else:
            ev = lambda: {k[len(P):]: v for k, v in m.calculate().items() if isinstance(k, str) and k.startswith(P)}
    except Exception as e:
        return result(1, ['build-escape'], [Fail('build-escape', got='%s:%s' % (exc_name(e), str(e)[:100]), exp='an executable', **desc)])

    def val(x):
        return classify(np.asarray(getattr(x, 'value', x), object).ravel()[0])
    clocky = kind in ('NOW', 'TODAY')
    steps = 'sdmye' if clocky and chain is None else 'sde'          # the plain builders also step to the same day number of another month / year
    for start, h in [(T0, h) for h in histories(4, steps)] + ([(T1, h) for h in histories(4)] if clocky else []):
        Clock.now = _dt.datetime(*start)
        np.random.seed(777)
        twin = np.random.RandomState(777)
        prev = None
        for step in h:
            if step == 's':
                Clock.now += _dt.timedelta(seconds=1)
            elif step == 'd':
                Clock.now += _dt.timedelta(days=1)
            elif step == 'm':
                Clock.now += _dt.timedelta(days=31)
            elif step == 'y':
                Clock.now += _dt.timedelta(days=365)
            else:
                ex += 1
                pos0 = np.random.get_state()[2]
                try:
                    r = {k: val(v) for k, v in ev().items()}
                except Exception as e:
                    fails.append(Fail('escape', got='%s:%s' % (exc_name(e), str(e)[:80]), exp='values', hist=h, **desc))
                    break
                a = r.get('A1')
                # freshness of the volatile cell itself
                if a is not None:
                    if kind in ('NOW', 'TODAY'):
                        e = N(serial(Clock.now, kind))
                        if not clock_ok(a, e[1], Clock.now):
                            fails.append(Fail('stale-or-wrong-clock', got=a, exp=e, hist=h, cell='A1', clock=str(Clock.now), **desc))
                            break
                    elif not rng_seam:
                        draws.append(a)
                    elif np.random.get_state()[2] == pos0:
                        fails.append(Fail('frozen-or-wrong-draw', got='no draw consumed, A1=%s' % (a,), exp='a fresh draw', hist=h, cell='A1', **desc))
                        break
                    if kind == 'RAND' and not (a[0] == 'n' and 0 <= a[1] < 1):
                        fails.append(Fail('rand-range', got=a, exp='[0,1)', hist=h, **desc))
                    if kind == 'RB' and not (a[0] == 'n' and a[1] == int(a[1]) and 1 <= a[1] <= 1000):
                        fails.append(Fail('randbetween-range', got=a, exp='integer in [1,1000]', hist=h, **desc))
                    # snapshot consistency: every dependent sees the same single value
                    x = a[1] if a[0] == 'n' else None
                    if x is not None:
                        for c, want in (('B1', x + 1), ('C1', x * 2), ('D1', x + 1 + x * 2), ('E1', 5 + x)):
                            if builder == 'array' and c == 'C1':
                                continue
                            if c in r and not close(r[c], N(want), 1e-12):
                                fails.append(Fail('inconsistent-snapshot', got='%s=%s' % (c, r[c]), exp='%s=%s from A1=%s' % (c, want, x), hist=h, cell=c, **desc))
                                break
                if 'F1' in r:
                    f1 = r['F1']
                    if kind in ('NOW', 'TODAY'):
                        e = N(serial(Clock.now, kind) + 5)
                        if not clock_ok(f1, e[1], Clock.now):
                            fails.append(Fail('stale-or-wrong-clock', got=f1, exp=e, hist=h, cell='F1', clock=str(Clock.now), **desc))
                            break
                    elif not rng_seam:
                        draws.append(f1)
                    elif prev is not None and prev.get('F1') == f1:
                        fails.append(Fail('frozen-or-wrong-draw', got='F1=%s twice' % (f1,), exp='a fresh draw', hist=h, cell='F1', **desc))
                        break
                if 'K2' in r and r['K2'] != N(10):
                    fails.append(Fail('unrelated-cell-wrong', got=r['K2'], exp=N(10), hist=h, cell='K2', **desc))
                if a is None and 'F1' not in r and builder.startswith('compile') is False:
                    fails.append(Fail('volatile-cell-missing', got=sorted(r), exp='A1', hist=h, **desc))
                prev = r
                oc.add('%s:%s' % (kind, builder))
            if fails:
                break
        if fails:
            break
    if not rng_seam and kind in ('RAND', 'RB') and not fails and len(draws) > 8 and len(set(draws)) < 3:
        fails.append(Fail('frozen-or-wrong-draw', got='%d evaluations gave %d distinct value(s)' % (len(draws), len(set(draws))), exp='fresh draws', hist='all', cell='A1/F1', **desc))
    return result(ex, sorted(oc), fails[:3])


RB_ARGS = [('1', '1000', 1, 1000), ('5', '5', 5, 5), ('1.5', '3.5', 2, 3), ('-3', '-1', -3, -1), ('0.2', '1', 1, 1), ('-0.5', '0.5', 0, 0),
           ('1.2', '1.8', None, None), ('-2.7', '-2.2', None, None), ('2.5', '2.5', None, None), ('3', '1', None, None), ('0.1', '0.9', None, None),
           ('1', '1.9', 1, 1), ('-1.9', '-1', -1, -1), ('10', '12.99', 10, 12), ('TRUE', '3', 'VALUE', None), ('"a"', '3', 'VALUE', None), ('#N/A', '3', '#N/A', None)]


def run_rbargs(case):
    """RANDBETWEEN over bound pairs: an integer within the bounds, #NUM! when the bounds hold no integer."""
    _, i, builder = case
    import numpy as np
    import formulas
    from xl.evalcell import classify, eval_formula, exc_name
    lo, hi, a, b = RB_ARGS[i]
    text = '=RANDBETWEEN(%s,%s)' % (lo, hi)
    fails, seen = [], set()
    desc = dict(kind='RB', builder=builder, formula=text, shape='args')
    np.random.seed(4242 + i)
    try:
        if builder == 'parser':
            func = formulas.Parser().ast(text)[1].compile()
            ev = lambda: classify(np.asarray(func(), object).ravel()[0])
        else:
            ev = lambda: eval_formula(text)
        for k in range(40):
            g = ev()
            seen.add(g)
            if a is None:
                ok = g == ('e', '#NUM!')
                want = '#NUM! (no integer within the bounds)'
            elif a == 'VALUE':
                ok = g == ('e', '#VALUE!')
                want = '#VALUE!'
            elif a == '#N/A':
                ok = g == ('e', '#N/A')
                want = '#N/A'
            else:
                ok = g[0] == 'n' and g[1] == int(g[1]) and a <= g[1] <= b
                want = 'integer in [%s, %s]' % (a, b)
            if not ok:
                fails.append(Fail('randbetween-range', got=g, exp=want, hist='call %d' % k, **desc))
                break
    except Exception as e:
        fails.append(Fail('escape', got=exc_name(e), exp='a value', **desc))
    if not fails and isinstance(a, int) and b - a >= 2 and len(seen) < 2:
        fails.append(Fail('frozen-or-wrong-draw', got=sorted(seen), exp='different values over 40 calls', **desc))
    return result(40, ['rbargs:%s' % ('num' if isinstance(a, int) else a)], fails)


def _isolated(fn, case):
    """run fn(case) in a forked child: dill.loads() of a model rebinds module-level objects of the library in the
    loading process (the function table then draws from a private copy of the random state), which must not leak
    into the cases that follow in this worker."""
    import os, pickle
    r, w = os.pipe()
    pid = os.fork()
    if pid == 0:
        code = 0
        try:
            os.close(r)
            data = pickle.dumps(fn(case))
            with os.fdopen(w, 'wb') as f:
                f.write(data)
        except BaseException:
            code = 1
        os._exit(code)
    os.close(w)
    with os.fdopen(r, 'rb') as f:
        data = f.read()
    os.waitpid(pid, 0)
    if not data:
        return result(1, ['child-died'], [Fail('escape', got='isolated child died', exp='a result', builder=str(case[2]), kind=str(case[1]))])
    return pickle.loads(data)


def run_case(case):
    if case[0] == 'workbook' and 'dill' in case[2]:
        return _isolated(run_workbook, case)
    if case[0] == 'rbargs':
        return run_rbargs(case)
    return run_formula(case) if case[0] == 'formula' else run_workbook(case)


def run(ctx):
    ctx.explore(run_case, cases(ctx.tier), chunksize=16, label='programs_x_builders')
    return {'histories_per_case': len(list(histories(4))), 'clock_start': str(_dt.datetime(*T0))}
