"""C04 Every spelling of a reference denotes the same node; distinct ones differ.
Engine E1: all columns, boundary rectangles x all spellings, names alphabet."""
import itertools
from mc.core import Fail, result
from ref import rects as R

MANIFEST = {
    'engine': 'E1',
    'technique': 'exhaustive enumeration of columns, boundary rectangles x spellings and short sheet/book names; identity, collision and read-back relations',
    'text': 'All 16384 column indices (both conversions, A1/R1C1/relative forms), every rectangle with corners on the boundary rows/columns '
            '(powers of 26, first/last rows and columns) in every listed spelling ($ markers, case, A1/R1C1/R[..]C[..] from three host cells, '
            'redundant X:X, whole row/column forms, sheet and workbook qualification incl. quoting, case and numeric links), all legal sheet names '
            'of length <= 2 (thorough 3) over an 8-symbol alphabet and defined names in three cases are resolved by the real tokeniser; '
            'equal (book, sheet, rectangle) must give equal ids, different ones different ids, ids must read back, fast paths must agree with the general resolver; relative references are also resolved through cells built one after the other with one shared context mapping. Workbook qualification is enumerated over 11 file names (digit-first, blanks, dots) x 4 directories x 4 sheet names.' ' Later additions: at model level, name keys in any letter case, workbooks loaded through non-normal relative and absolute paths (one node per cell), one rectangle spelled twice in one formula, defined names (also chained) as range end points.',
    'note': 'Relational oracle: needs no knowledge of the canonical form. Reversed corners, RC without brackets and the R1C1 whole row/column forms C1:C2 / R1:R2 (ambiguous with A1 cells) are excluded.',
}
RULE = 'boundary-set products; non-trivial = spelling resolved by the tokeniser; distinct = case key'
ASSUMPTIONS = ['rows are taken at the boundaries only (the statement allows random rows elsewhere; none are sampled)']
MAXC, MAXR = 16384, 1048576
COLS_Q = [1, 2, 3, 25, 26, 27, 28, 702, 703, 704, 16383, 16384]
ROWS_Q = [1, 2, 9, 10, 11, 1048575, 1048576]
HOSTS = [(1, 1), (5, 3), (1048576, 16384)]   # (row, col)


def bset(tier):
    if tier == 'quick':
        return COLS_Q, ROWS_Q
    cols = sorted({c for p in (1, 26, 27, 676, 702, 703, 16384) for c in range(p - 2, p + 3) if 1 <= c <= MAXC} | {18278 % MAXC, 100, 256, 257})
    rows = sorted({r for p in (1, 10, 100, 1000, 65536, 1048576) for r in range(p - 2, p + 3) if 1 <= r <= MAXR})
    return cols, rows


def nm(s, ctx=None):
    from formulas.tokens.operand import Range
    from formulas.errors import TokenError
    try:
        r = Range(s, ctx)
        if r.end_match != len(s):
            return 'PARTIAL:%s' % s[r.end_match:]
        return r.name
    except TokenError:
        return 'TokenError'
    except Exception as e:
        return 'ESC:' + type(e).__name__


def pushname(text, ctx):
    from formulas.ranges import Ranges
    try:
        return Ranges().push(text, context=ctx).ranges[0]['name']
    except Exception as e:
        return 'ESC:' + type(e).__name__


def spellings(c1, r1, c2, r2):
    C1, C2 = R.col(c1), R.col(c2)
    out = {}
    single = (c1, r1) == (c2, r2)
    if single:
        out['A1'] = '%s%d' % (C1, r1)
        out['$A$1'] = '$%s$%d' % (C1, r1)
        out['a1'] = ('%s%d' % (C1, r1)).lower()
        out['A$1'] = '%s$%d' % (C1, r1)
        out['$A1'] = '$%s%d' % (C1, r1)
        out['R1C1'] = 'R%dC%d' % (r1, c1)
        out['r1c1'] = 'r%dc%d' % (r1, c1)
    out['A1:B2'] = '%s%d:%s%d' % (C1, r1, C2, r2)
    out['$A$1:$B$2'] = '$%s$%d:$%s$%d' % (C1, r1, C2, r2)
    out['A$1:$B2'] = '%s$%d:$%s%d' % (C1, r1, C2, r2)
    out['a1:b2'] = ('%s%d:%s%d' % (C1, r1, C2, r2)).lower()
    out['R1C1:R2C2'] = 'R%dC%d:R%dC%d' % (r1, c1, r2, c2)
    out['r1c1:r2c2'] = 'r%dc%d:r%dc%d' % (r1, c1, r2, c2)
    if r1 == 1 and r2 == MAXR:
        out['A:B'] = '%s:%s' % (C1, C2)
        out['$A:$B'] = '$%s:$%s' % (C1, C2)
        out['a:b'] = ('%s:%s' % (C1, C2)).lower()
    if c1 == 1 and c2 == MAXC:
        out['1:2'] = '%d:%d' % (r1, r2)
        out['$1:$2'] = '$%d:$%d' % (r1, r2)
    return out


def rel_spellings(c1, r1, c2, r2, host):
    hr, hc = host
    out = {}
    d = (r1 - hr, c1 - hc, r2 - hr, c2 - hc)
    if (c1, r1) == (c2, r2) and d[0] and d[1]:
        out['R[]C[]'] = 'R[%d]C[%d]' % (d[0], d[1])
        out['R[+]C[+]'] = 'R[%+d]C[%+d]' % (d[0], d[1])
    if all(d):
        out['R[]C[]:R[]C[]'] = 'R[%d]C[%d]:R[%d]C[%d]' % d
        out['r[]c[]:r[]c[]'] = 'r[%d]c[%d]:r[%d]c[%d]' % d
    if r1 == 1 and r2 == MAXR and d[1] and d[3]:
        out['C[]:C[]'] = 'C[%d]:C[%d]' % (d[1], d[3])
    if c1 == 1 and c2 == MAXC and d[0] and d[2]:
        out['R[]:R[]'] = 'R[%d]:R[%d]' % (d[0], d[2])
    return out


def feat(c1, r1, c2, r2):
    f = []
    if MAXR in (r1, r2):
        f.append('maxrow')
    if MAXC in (c1, c2):
        f.append('maxcol')
    return '+'.join(f) or 'inner'


def run_rect(case):
    """all spellings of all rectangles with left column c1 and right column c2."""
    _, tier, c1, c2 = case
    from formulas.ranges import Ranges
    cols, rows = bset(tier)
    fails, oc, n = [], {}, 0
    ctx0 = {'sheet': 'S', 'filename': 'b.xlsx', 'directory': ''}
    ids = {}
    for r1, r2 in itertools.combinations_with_replacement(rows, 2):
        key = (c1, r1, c2, r2)
        ft = feat(*key)
        sp = spellings(*key)
        names = {k: nm(v, ctx0) for k, v in sp.items()}
        for hr, hc in HOSTS:
            ctx = dict(ctx0, cr=str(hr), cc=hc)
            for k, v in rel_spellings(c1, r1, c2, r2, (hr, hc)).items():
                names['%s@%d,%d' % (k, hr, hc)] = nm(v, ctx)
                sp['%s@%d,%d' % (k, hr, hc)] = v
        # the same spellings through the other public entry point (Ranges.push): same id from every host, in any order
        for k in list(names):
            host = k.split('@')[1] if '@' in k else None
            cx = dict(ctx0, cr=host.split(',')[0], cc=int(host.split(',')[1])) if host else ctx0
            names['push:' + k] = pushname(sp[k], cx)
            sp['push:' + k] = sp[k]
        n += len(names)
        ref = names['A1:B2']
        for k, v in names.items():
            o = 'ok' if v == ref else 'diff'
            oc[o] = oc.get(o, 0) + 1
            if v != ref:
                fails.append(Fail('spelling', got=v, exp=ref, text=sp[k], base=sp['A1:B2'], spelling=k.split('@')[0], feat=ft))
        if ref in ids and ids[ref] != key:
            fails.append(Fail('collision', got=ref, exp='distinct ids for %s and %s' % (key, ids[ref]), text=sp['A1:B2'], feat=ft, spelling='A1:B2'))
        ids.setdefault(ref, key)
        # read back
        if not ref.startswith(('ESC', 'TokenError', 'PARTIAL')):
            n += 1
            try:
                rb = Ranges().push(ref).ranges[0]
                back = (rb['n1'] or 1, int(rb['r1']) or 1, rb['n2'], int(rb['r2']))
                if rb['name'] != ref or back != key:
                    fails.append(Fail('readback', got=[rb['name']] + list(back), exp=[ref] + list(key), text=ref, feat=ft, spelling='id'))
            except Exception as e:
                fails.append(Fail('readback', got='ESC:' + type(e).__name__, exp=list(key), text=ref, feat=ft, spelling='id'))
    return result(n, ['%s:%d' % kv for kv in oc.items()][:0] + list(oc), fails, states=None) | {'ids': {k: list(v) for k, v in ids.items()}}


def run_cols(case):
    _, lo, hi = case
    from formulas.tokens.operand import _index2col, _col2index
    fails, n = [], 0
    ctx = {'sheet': 'S', 'cr': '7', 'cc': 9}
    seen = {}
    for i in range(lo, hi):
        n += 6
        c = _index2col(i)
        if c != R.col(i) or _col2index(c) != i or _col2index(c.lower()) != i:
            fails.append(Fail('column', got=[c, _col2index(c)], exp=[R.col(i), i], index=i))
        if c in seen:
            fails.append(Fail('column-collision', got=c, exp='distinct', index=i))
        seen[c] = i
        ids = {nm('%s5' % c, ctx), nm('$%s$5' % c.lower(), ctx), nm('R5C%d' % i, ctx), nm('%s5:%s5' % (c, c), ctx)}
        if i != 9:
            ids.add(nm('R[-2]C[%d]' % (i - 9), ctx))
        if len(ids) != 1 or list(ids)[0] != 'S!%s5' % R.col(i):
            fails.append(Fail('column-spelling', got=sorted(ids), exp='S!%s5' % R.col(i), index=i))
    return result(n, ['cols'], fails)


# ---- sheet / workbook qualification and names
ALPHA = ['a', 'B', '1', ' ', '.', '_', '-', "'", 'é']


def legal_sheet(s):
    return s and not s.startswith("'") and not s.endswith("'") and s.strip() == s and not s.startswith(' ')


def quote(s):
    return "'%s'" % s.replace("'", "''")


def needs_quote(s):
    import re
    return re.fullmatch(r'[^\W\d][\w\.]*', s) is None


def run_names(case):
    _, first, maxlen = case
    fails, n, oc = [], 0, {}
    names = [first + ''.join(p) for k in range(0, maxlen) for p in itertools.product(ALPHA, repeat=k)]
    ids = {}
    for s in names:
        if not legal_sheet(s):
            continue
        forms = {}
        # explicit sheet: quoted, quoted other case, unquoted when legal; implicit via context
        forms['quoted'] = nm("%s!A1" % quote(s))
        forms['quoted-swapcase'] = nm("%s!a1" % quote(s.swapcase()))
        if not needs_quote(s):
            forms['bare'] = nm('%s!A1' % s)
            forms['bare-lower'] = nm('%s!$A$1' % s.lower())
        forms['context'] = nm('A1', {'sheet': s})
        forms['context-upper'] = nm('A1', {'sheet': s.upper()})
        forms['book-quoted'] = nm("'[b.xlsx]%s'!A1" % s.replace("'", "''"))
        forms['book-context'] = nm('A1', {'sheet': s, 'filename': 'b.xlsx', 'directory': ''})
        forms['book-case'] = nm("'[b.xlsx]%s'!A1" % s.swapcase().replace("'", "''"))
        forms['book-link'] = nm("[1]%s!A1" % s, {'external_links': {'1': ('', 'b.xlsx')}}) if not needs_quote(s) else None
        n += len(forms)
        nob = {k: v for k, v in forms.items() if not k.startswith('book') and v is not None}
        wb = {k: v for k, v in forms.items() if k.startswith('book') and v is not None}
        for grp, label in ((nob, 'sheet'), (wb, 'book')):
            ref = grp['quoted' if label == 'sheet' else 'book-quoted']
            for k, v in grp.items():
                o = label + (':ok' if v == ref else ':diff')
                oc[o] = oc.get(o, 0) + 1
                if v != ref:
                    fails.append(Fail('name-spelling', got=v, exp=ref, sheet=s, spelling=k, apostrophe="'" in s))
            key = (label, s.upper())
            if ref in ids and ids[ref] != key:
                fails.append(Fail('name-collision', got=ref, exp='distinct ids for %s and %s' % (key, ids[ref]), sheet=s, spelling=label, apostrophe="'" in s))
            ids.setdefault(ref, key)
            # read back
            if not ref.startswith(('ESC', 'TokenError', 'PARTIAL')):
                n += 1
                back = nm(ref)
                if back != ref:
                    fails.append(Fail('name-readback', got=back, exp=ref, sheet=s, spelling=label, apostrophe="'" in s))
    return result(n, list(oc), fails) | {'ids': {k: list(v) for k, v in ids.items()}}


BOOKS = ['b.xlsx', 'B2.xlsx', '2024.xlsx', '2024 budget.xlsx', '1a.xlsx', 'my book.xlsx', 'a-b.xlsx', 'Ünï.xlsx', 'x.y.xlsx', '7up.xlsm', 'a_b.xlsx']
DIRS = ['', 'sub', 'sub/deep', '2024']


def run_books(case):
    """workbook qualification: file names (digit-first, blanks, dots) x directories."""
    _, sheet = case
    fails, n, ids = [], 0, {}
    for f in BOOKS:
        for d in DIRS:
            pre = (d + '/') if d else ''
            qs = sheet.replace("'", "''")
            forms = {
                'quoted': nm("'%s[%s]%s'!A1" % (pre, f, qs)),
                'quoted-lower': nm("'%s[%s]%s'!$a$1" % (pre, f, qs.lower())),
                'context': nm('A1', {'sheet': sheet, 'filename': f, 'directory': d}),
                'context-slash': nm('A1', {'sheet': sheet, 'filename': f, 'directory': pre}),
                'range-1': nm("'%s[%s]%s'!A1:A1" % (pre, f, qs)),
                # a reference that names its workbook without a folder lives in the host workbook's folder
                'inherit-dir': nm("'[%s]%s'!A1" % (f, qs), {'sheet': 'Other', 'filename': 'host.xlsx', 'directory': d}),
                'inherit-dir-push': pushname("'[%s]%s'!A1" % (f, qs), {'sheet': 'Other', 'filename': 'host.xlsx', 'directory': d}),
                'inherit-all': nm("'%s'!A1" % qs, {'sheet': 'Other', 'filename': f, 'directory': d}),
            }
            n += len(forms)
            ref = forms['quoted']
            for k, v in forms.items():
                if v != ref:
                    fails.append(Fail('book-spelling', got=v, exp=ref, book=f, dir=d, spelling=k, digit=f[0].isdigit()))
            key = (d, f, sheet.upper())
            if ref in ids and ids[ref] != key:
                fails.append(Fail('book-collision', got=ref, exp='distinct ids for %s and %s' % (key, ids[ref]), book=f, dir=d, spelling='quoted', digit=f[0].isdigit()))
            ids.setdefault(ref, key)
            if not ref.startswith(('ESC', 'TokenError', 'PARTIAL')):
                n += 2
                back = nm(ref)
                if back != ref:
                    fails.append(Fail('book-readback', got=back, exp=ref, book=f, dir=d, spelling='id', digit=f[0].isdigit()))
                try:
                    from formulas.ranges import Ranges
                    g = Ranges().push(ref).ranges[0]
                    if g['name'] != ref or (g.get('filename'), g.get('sheet', '').replace("''", "'").upper()) != (f, sheet.upper()):
                        fails.append(Fail('book-readback', got=[g['name'], g.get('filename'), g.get('directory')], exp=[ref, f, d], book=f, dir=d, spelling='parts', digit=f[0].isdigit()))
                except Exception as e:
                    fails.append(Fail('book-readback', got='ESC:' + type(e).__name__, exp=ref, book=f, dir=d, spelling='push', digit=f[0].isdigit()))
            else:
                fails.append(Fail('book-spelling', got=ref, exp='an id', book=f, dir=d, spelling='quoted', digit=f[0].isdigit()))
    # numeric external-link ids are a different thing and must stay distinct from file names
    link = nm('[7]%s!A1' % sheet) if sheet.isalnum() else None
    if link in ids:
        fails.append(Fail('book-collision', got=link, exp='link id distinct from file ids', book='[7]', dir='', spelling='link', digit=True))
    return result(n, ['books'], fails)


def run_relhost(case):
    """the same relative text from many host cells, interleaved: each must denote host + offset (both entry points)."""
    _, sheet = case
    hosts = [(1, 1), (5, 3), (10, 5), (100, 27), (7, 7), (1048570, 16380), (3, 703)]
    offs = [-2, -1, 1, 2, 3]
    fails, n = [], 0
    for rounds in range(2):                      # twice: a memo filled by one host must not answer for another
        for dr in offs:
            for dc in offs:
                for (hr, hc) in (hosts if rounds == 0 else hosts[::-1]):
                    r, c = hr + dr, hc + dc
                    if not (1 <= r <= MAXR and 1 <= c <= MAXC):
                        continue
                    ctx = {'sheet': sheet, 'cr': str(hr), 'cc': hc}
                    want = '%s!%s%d' % (sheet.upper(), R.col(c), r)
                    for text in ('R[%d]C[%d]' % (dr, dc), 'r[%+d]c[%+d]' % (dr, dc)):
                        for label, got in (('Range', nm(text, ctx)), ('push', pushname(text, ctx))):
                            n += 1
                            if got != want:
                                fails.append(Fail('relative-host', got=got, exp=want, text=text, host='R%dC%d' % (hr, hc), spelling=label, feat='round%d' % rounds))
                    r2, c2 = r + 1, c + 2
                    if r2 <= MAXR and c2 <= MAXC and dr + 1 != 0 and dc + 2 != 0:      # a zero offset is not in the alphabet (DESIGN C04 Excluded)
                        text = 'R[%d]C[%d]:R[%d]C[%d]' % (dr, dc, dr + 1, dc + 2)
                        want2 = '%s!%s%d:%s%d' % (sheet.upper(), R.col(c), r, R.col(c2), r2)
                        for label, got in (('Range', nm(text, ctx)), ('push', pushname(text, ctx))):
                            n += 1
                            if got != want2:
                                fails.append(Fail('relative-host', got=got, exp=want2, text=text, host='R%dC%d' % (hr, hc), spelling=label, feat='round%d' % rounds))
    # third entry point: cells built one after the other with ONE context mapping, as a sheet loader does
    from formulas.cell import Cell
    for shared in ({'sheet': sheet, 'filename': 'b.xlsx', 'directory': ''}, {'sheet': sheet}):
        for rounds in range(2):
            for (hr, hc) in (hosts if rounds == 0 else hosts[::-1]):
                for dr, dc in ((-2, -1), (1, 2), (3, -2)):
                    r, c = hr + dr, hc + dc
                    if not (1 <= r <= MAXR and 1 <= c <= MAXC):
                        continue
                    text = '=R[%d]C[%d]+1' % (dr, dc)
                    n += 1
                    try:
                        cell = Cell('%s%d' % (R.col(hc), hr), text, context=shared).compile()
                        got = sorted(cell.inputs)
                    except Exception as e:
                        got = type(e).__name__
                    want = [("'[b.xlsx]%s'!%s%d" if 'filename' in shared else '%s!%s%d') % (sheet.upper(), R.col(c), r)]
                    if got != want:
                        fails.append(Fail('relative-host', got=got, exp=want, text=text, host='R%dC%d' % (hr, hc), spelling='Cell+shared-context', feat='round%d' % rounds))
    return result(n, ['relhost'], fails[:40])


def run_defined(case):
    _, name = case
    fails = []
    forms = {'as-is': nm(name), 'upper': nm(name.upper()), 'lower': nm(name.lower()),
             'sheet-ctx': nm(name, {'sheet': 'S'}), 'book-ctx': nm(name, {'sheet': 'S', 'filename': 'b.xlsx', 'directory': ''})}
    for k in ('upper', 'lower'):
        if forms[k] != forms['as-is']:
            fails.append(Fail('defined-name', got=forms[k], exp=forms['as-is'], name=name, spelling=k))
    # a defined name is global: the host sheet must not qualify it
    if forms['sheet-ctx'] != forms['as-is']:
        fails.append(Fail('defined-name', got=forms['sheet-ctx'], exp=forms['as-is'], name=name, spelling='sheet-ctx'))
    q = nm("S!%s" % name)
    q2 = nm("s!%s" % name.lower())
    if q != q2:
        fails.append(Fail('defined-name', got=q2, exp=q, name=name, spelling='qualified-lower'))
    return result(7, ['defined'], fails)


def run_fast(case):
    """fast paths vs the general resolver on the same inputs."""
    _, tier, c1 = case
    import formulas.tokens.operand as O
    cols, rows = bset(tier)
    fails, n = [], 0

    def general(**inputs):
        inputs = dict(inputs)
        inputs.setdefault('sheet_id', O._build_sheet_id(**inputs))
        keys = tuple(sorted(inputs))
        return dict(O._range2parts(keys, None)(*(inputs[k] for k in keys)))
    for c2 in [c for c in cols if c >= c1]:
        for r1, r2 in itertools.combinations_with_replacement(rows, 2):
            variants = [dict(c1=R.col(c1), r1=str(r1), c2=R.col(c2), r2=str(r2), sheet='S'),
                        dict(n1=c1, r1=str(r1), n2=c2, r2=str(r2), sheet='S')]
            if (c1, r1) == (c2, r2):
                variants += [dict(c1=R.col(c1), r1=str(r1), sheet='S'), dict(n1=c1, r1=str(r1), sheet='S')]
            for kw in variants:
                n += 2
                try:
                    a = O.range2parts(None, **kw)
                    b = general(**kw)
                    for k in ('name', 'ref', 'n1', 'n2', 'r1', 'r2'):
                        if k in a and str(a[k]) != str(b.get(k)):
                            fails.append(Fail('fast-path', got='%s=%s' % (k, a[k]), exp='%s=%s' % (k, b.get(k)), text=str(sorted(kw.items())), feat=feat(c1, r1, c2, r2)))
                            break
                except Exception as e:
                    fails.append(Fail('fast-path', got='ESC:' + type(e).__name__, exp='agreement', text=str(sorted(kw.items())), feat=feat(c1, r1, c2, r2)))
    return result(n, ['fast'], fails)


# ---- the same relations at the level of a model: name keys of a dictionary in any letter case, workbook paths in any spelling
def run_model(case):
    import os, re
    import numpy as np
    import formulas
    from xl.wbspec import Scratch
    from xl.evalcell import classify, exc_name
    _, kind = case
    fails, n = [], 0
    P = "'[b.xlsx]S'!"
    val = lambda sol, k: classify(np.asarray(sol[k].value, object).ravel()[0]) if k in sol else None
    if kind == 'names':
        for key in ('Rate', 'rate', 'RATE', 'vat.2024', 'Vat.2024', 'my_Name', 'näme'):
            for use in (key, key.upper(), key.lower(), key.swapcase()):
                n += 1
                d = {P + 'A1': 5, "'[b.xlsx]'!%s" % key: "='[b.xlsx]S'!A1", P + 'B1': "='[b.xlsx]'!%s*2" % use, P + 'B2': "=SUM('[b.xlsx]'!%s,1)" % use.upper()}
                try:
                    m = formulas.ExcelModel().from_dict(d)
                    sol = m.calculate()
                    got = (val(sol, P + 'B1'), val(sol, P + 'B2'))
                    names = [k for k in m.dsp.data_nodes if isinstance(k, str) and k.upper().endswith('!' + key.upper())]
                except Exception as e:
                    got, names = 'ESC:' + exc_name(e), []
                if got != (('n', 10.0), ('n', 6.0)) or len(names) != 1:
                    fails.append(Fail('defined-name', got='%s nodes=%s' % (got, names), exp='B1=10, B2=6, one node', name=key, spelling='dict-key:' + use))
    elif kind == 'twospell':
        # one formula reaching the same rectangle through two different spellings: one node, both uses served
        sp = ["%sA1:B2" % P, "%s$A$1:$B$2" % P, "%sA1:%sB2" % (P, P), "%sA1:A2:%sB2" % (P, P), "%sa1:b2" % P, "%sA1:B1:%sB2" % (P, P), "%sB2:%sA1" % (P, P)]
        sp += ["%sA1:'[b.xlsx]'!LASTC" % P, "'[b.xlsx]'!FIRSTC:%sB2" % P, "'[b.xlsx]'!firstc:'[b.xlsx]'!Lastc", "%s$A$1:'[b.xlsx]'!LASTC" % P]      # an end point given by a defined name
        base = {P + 'A1': 1, P + 'A2': 20, P + 'B1': 300, P + 'B2': 4000, "'[b.xlsx]'!LASTC": '=%sB2' % P, "'[b.xlsx]'!FIRSTC": '=%sA1' % P}
        for x in sp:
            for y in sp:
                n += 1
                d = dict(base)
                d[P + 'D1'] = '=SUM(%s)*10+SUM(%s)' % (x, y)
                d[P + 'D2'] = '=COUNT(%s)&"|"&MAX(%s)' % (y, x)
                try:
                    sol = formulas.ExcelModel().from_dict(d).calculate()
                    got = (val(sol, P + 'D1'), val(sol, P + 'D2'))
                except Exception as e:
                    got = 'ESC:' + exc_name(e)
                if got != (('n', 47531.0), ('t', '4|4000')):
                    fails.append(Fail('book-spelling', got=str(got), exp='D1=47531, D2="4|4000"', book=x, dir=y, spelling='two-spellings-in-one-formula', digit=False))
    else:
        import openpyxl
        cwd = os.getcwd()
        with Scratch() as d:
            try:
                os.makedirs(os.path.join(d, 'sub'))
                wc = openpyxl.Workbook()
                wc.active.title = 'U'
                wc.active['A1'], wc.active['A2'] = 7, '=A1*3'
                wc.save(os.path.join(d, 'sub', 'c.xlsx'))
                wb = openpyxl.Workbook()
                wb.active.title = 'S'
                wb.active['A1'] = "='sub/[c.xlsx]U'!A2+1"
                wb.active['A2'] = "=SUM('sub/[c.xlsx]U'!A1:A2)"
                wb.save(os.path.join(d, 'b.xlsx'))
                os.chdir(d)
                for pb in ('b.xlsx', './b.xlsx', os.path.join(d, 'b.xlsx')):
                    for pc in (None, 'sub/c.xlsx', './sub/c.xlsx', 'sub/../sub/c.xlsx', 'sub//c.xlsx', os.path.join(d, 'sub', 'c.xlsx'), './sub/./c.xlsx'):
                        for order in (0,):          # the first workbook loaded fixes the base folder: the host always goes first
                            n += 1
                            files = [pb] + ([pc] if pc else [])
                            try:
                                m = formulas.ExcelModel().loads(*(files[::-1] if order else files)).finish()
                                sol = m.calculate()
                                a1 = [val(sol, k) for k in sol if isinstance(k, str) and k.upper().endswith("[B.XLSX]S'!A1")]
                                a2 = [val(sol, k) for k in sol if isinstance(k, str) and k.upper().endswith("[B.XLSX]S'!A2")]
                                ids = [k for k in m.dsp.data_nodes if isinstance(k, str) and re.search(r"\[c\.xlsx\]U'!A1$", k, re.I)]
                            except Exception as e:
                                a1, a2, ids = 'ESC:' + exc_name(e), None, []
                            if a1 != [('n', 22.0)] or a2 != [('n', 28.0)] or len(ids) != 1:
                                fails.append(Fail('book-spelling', got='A1=%s A2=%s ids=%s' % (a1, a2, ids), exp='A1=22 A2=28, one node for U!A1', book=str(pc), dir=str(pb), spelling='loads-path', digit=False))
            finally:
                os.chdir(cwd)
    return result(n, ['model:' + kind], fails[:20])


def run_case(case):
    if case[0] == 'model':
        return run_model(case)
    return {'rect': run_rect, 'cols': run_cols, 'names': run_names, 'defined': run_defined, 'fast': run_fast, 'books': run_books, 'relhost': run_relhost}[case[0]](case)


def run(ctx):
    cols, rows = bset(ctx.tier)
    allids = {}

    def collect(label, cases, chunk):
        from mc.core import pmap
        n0 = ctx.evaluations
        for case, r in pmap(run_case, cases, chunk):
            for k, v in r.pop('ids', {}).items():
                v = tuple(v)
                if k in allids and allids[k][0] != v and not k.startswith(('ESC', 'TokenError', 'PARTIAL')):
                    r['fails'].append(Fail('collision' if label == 'rect' else 'name-collision', got=k, exp='distinct ids for %s and %s' % (v, allids[k][0]),
                                           text=k, feat='global', spelling='global', sheet=str(v), apostrophe="'" in str(v)))
                allids.setdefault(k, (v, case))
            ctx.add(case, r)
        ctx.extra.setdefault('spaces', {})[label] = ctx.evaluations - n0
    collect('rect', (['rect', ctx.tier, a, b] for a, b in itertools.combinations_with_replacement(cols, 2)), 2)
    ctx.explore(run_case, (['cols', lo, min(lo + 512, MAXC + 1)] for lo in range(1, MAXC + 1, 512)), chunksize=1, label='columns')
    maxlen = 2 if ctx.tier == 'quick' else 3
    collect('names', (['names', f, maxlen] for f in ALPHA if f not in (' ', "'")), 1)
    ctx.explore(run_case, (['defined', nme] for nme in ['rate', 'Rate', 'RATE', 'my_name', 'My.Name', 'x_1', 'näme', 'TaxRate2024x']), chunksize=1, label='defined_names')
    ctx.explore(run_case, (['fast', ctx.tier, c] for c in cols), chunksize=1, label='fast_paths')
    ctx.explore(run_case, (['books', sh] for sh in ['S', 'My Data', "It's", '1st']), chunksize=1, label='workbook_names')
    ctx.explore(run_case, (['relhost', sh] for sh in ['S', 'T']), chunksize=1, label='relative_text_from_many_hosts')
    ctx.explore(run_case, (['model', k] for k in ['names', 'paths', 'twospell']), chunksize=1, label='names_and_paths_at_model_level')
    return {'distinct_ids': len(allids)}
