"""Fixed workbook models (ref/wbeval spec format) used by the history checks C07, C08, C13, C16, C17."""
from ref import wbeval as W

B, C = 'b.xlsx', 'c.xlsx'


def cell(s, c, b=B):
    return ['cell', b, s, c]


def rng(s, r, b=B):
    return ['rng', b, s, r]


def op(o, l, r):
    return ['op', o, l, r]


def fn(n, *a):
    return ['fn', n, list(a)]


def num(x):
    return ['num', x]


def const(v):
    return ['const', list(v)]


def K(s, c, b=B):
    return W.key(b, s, c)


def model_a():
    """chain through a range, a defined name and an array formula; IF branch; IFERROR."""
    cells = {
        K('S', 'A1'): const(('n', 1.0)), K('S', 'A2'): const(('n', 2.0)),
        K('S', 'A3'): op('+', cell('S', 'A1'), cell('S', 'A2')),
        K('S', 'B1'): fn('SUM', rng('S', 'A1:A3')),
        K('S', 'B2'): fn('IF', op('>', cell('S', 'B1'), num(3)), cell('S', 'A1'), cell('S', 'A2')),
        K('S', 'C1'): op('&', cell('S', 'B1'), ['txt', 'x']),
        K('S', 'D1'): op('*', ['name', B, 'RATE'], num(10)),
        K('S', 'F1'): op('+', cell('S', 'E2'), num(1)),
        K('S', 'G1'): fn('IFERROR', op('/', num(1), cell('S', 'A1')), ['txt', 'err']),
    }
    return {'cells': cells, 'arrays': {K('S', 'E1:E2'): op('*', rng('S', 'A1:A2'), num(2))}, 'names': {'%s|RATE' % B: cell('S', 'A1')},
            'sheets': [[B, 'S']]}


def model_b():
    """two sheets, an IF whose branch depends on an input, an error cell and handlers."""
    cells = {
        K('S', 'A1'): const(('n', 5.0)), K('S', 'A2'): const(('t', 'yes')), K('S', 'A3'): const(('e', '#N/A')),
        K('T', 'A1'): fn('IF', op('>', cell('S', 'A1'), num(3)), cell('S', 'A2'), cell('S', 'A3')),
        K('T', 'A2'): fn('IFERROR', cell('T', 'A1'), num(7)),
        K('T', 'A3'): fn('ISERROR', cell('T', 'A1')),
        K('T', 'B1'): op('+', cell('S', 'A1'), fn('COUNT', rng('S', 'A1:A3'))),
        K('S', 'B1'): op('&', cell('T', 'A2'), cell('T', 'B1')),
    }
    return {'cells': cells, 'arrays': {}, 'names': {}, 'sheets': [[B, 'S'], [B, 'T']]}


def model_c():
    """two books, a name in the second book, min/max over a cross-book range."""
    cells = {
        K('S', 'A1'): const(('n', 4.0)), K('S', 'A2'): const(('n', -1.0)),
        K('U', 'A1', C): const(('n', 10.0)), K('U', 'A2', C): const(('b', True)),
        K('U', 'B1', C): op('+', cell('S', 'A1'), cell('U', 'A1', C)),
        K('S', 'B1'): fn('MAX', rng('U', 'A1:B1', C), cell('S', 'A2')),
        K('S', 'B2'): op('-', cell('S', 'B1'), ['name', B, 'BASE']),
        K('S', 'B3'): fn('MIN', rng('S', 'A1:A2'), cell('U', 'B1', C)),
        K('S', 'B4'): op('*', ['name', B, 'BASE'], num(2)),          # depends on the name and a literal only
    }
    return {'cells': cells, 'arrays': {}, 'names': {'%s|BASE' % B: cell('U', 'A1', C)}, 'sheets': [[B, 'S'], [C, 'U']]}


def model_d():
    """a 2x3 block read as a whole and cell by cell; a sparse range with several unpopulated cells."""
    cells = {
        K('S', 'A1'): const(('n', 1.0)), K('S', 'B1'): const(('n', 2.0)), K('S', 'C1'): const(('n', 3.0)),
        K('S', 'A2'): const(('n', 4.0)), K('S', 'B2'): const(('n', 5.0)), K('S', 'C2'): const(('n', 6.0)),
        K('S', 'E1'): fn('SUM', rng('S', 'A1:C2')),
        K('S', 'E2'): op('-', op('*', cell('S', 'B1'), num(100)), cell('S', 'A2')),
        K('S', 'E3'): op('&', cell('S', 'C1'), cell('S', 'B2')),
        K('S', 'E4'): op('+', ['name', B, 'BLOCK_TOTAL'], cell('S', 'C2')),
        K('S', 'G1'): const(('n', 7.0)), K('S', 'G4'): const(('n', 9.0)),
        K('S', 'H1'): fn('SUM', rng('S', 'G1:G5')),
        K('S', 'H2'): op('+', fn('COUNT', rng('S', 'G1:G5')), cell('S', 'G3')),
        # a computed defined name (not a pure reference) and readers of its source cell
        K('S', 'J1'): op('+', ['name', B, 'GROSS'], num(1)),
        K('S', 'J2'): op('*', cell('S', 'A1'), num(3)),
    }
    cells[K('S', 'J3')] = op('+', fn('SUM', ['name', B, 'COLPAIR']), ['name', B, 'KONST'])
    return {'cells': cells, 'arrays': {}, 'names': {'%s|BLOCK_TOTAL' % B: cell('S', 'E1'), '%s|GROSS' % B: op('*', cell('S', 'A1'), num(2)),
                                                    # a name for a range (a second level of indirection) and a name for a constant
                                                    '%s|COLPAIR' % B: rng('S', 'A1:A2'), '%s|KONST' % B: num(2)}, 'sheets': [[B, 'S']]}


def model_e():
    """an array-formula block B1:B4; a range that overlaps only its lower half (B3:C6, with unpopulated cells);
    single elements of the block read directly."""
    cells = {K('S', 'A%d' % r): const(('n', float(r))) for r in (1, 2, 3, 4)}
    cells.update({
        K('S', 'C3'): const(('n', 100.0)), K('S', 'C5'): const(('n', 200.0)),
        K('S', 'D1'): fn('SUM', rng('S', 'B3:C6')),
        K('S', 'D2'): op('+', cell('S', 'B1'), cell('S', 'B2')),
        K('S', 'D3'): op('*', cell('S', 'B4'), num(2)),
        K('S', 'D4'): fn('SUM', rng('S', 'B1:B4')),
        # a range that wholly contains the block (and four constants)
        K('S', 'D5'): fn('SUM', rng('S', 'A1:B4')),
        # a range with exactly ONE populated cell, which is also read directly
        K('S', 'F1'): const(('n', 5.0)), K('S', 'G1'): fn('SUM', rng('S', 'F1:F4')), K('S', 'G2'): op('*', cell('S', 'F1'), num(2)),
    })
    return {'cells': cells, 'arrays': {K('S', 'B1:B4'): op('*', rng('S', 'A1:A4'), num(10))}, 'names': {}, 'sheets': [[B, 'S']]}


MODELS = {'a': model_a, 'b': model_b, 'c': model_c, 'd': model_d, 'e': model_e}
