"""Harness over the documented single-formula path:
Cell(ref, text).compile() -> cell.add(Dispatcher()) -> dsp(inputs).
Values are mapped into the reference value model (ref/values.py):
('n', float) ('t', str) ('b', bool) ('e', '#N/A') ('blank',) ('BAD', what)."""
import math
import numpy as np
import schedula as sh
import formulas
from formulas.cell import Cell
from formulas.tokens.operand import XlError, Error

ERRORS = Error.errors


def classify(x):
    if isinstance(x, XlError):
        return ('e', str.__str__(x))
    if isinstance(x, (bool, np.bool_)):
        return ('b', bool(x))
    if isinstance(x, sh.Token):
        if x is sh.EMPTY:
            return ('blank',)
        return ('BAD', 'token:%s' % x)
    if isinstance(x, str):
        return ('t', str(x))
    if isinstance(x, (complex, np.complexfloating)):
        return ('BAD', 'complex')
    if isinstance(x, (int, float, np.integer, np.floating)):
        x = float(x)
        if x != x or abs(x) == math.inf:
            return ('BAD', 'nonfinite')
        return ('n', x)
    if x is None:
        return ('BAD', 'None')
    return ('BAD', type(x).__name__)


def classify_array(a):
    a = np.asarray(a, object)
    if a.ndim == 0:
        return classify(a.item())
    if a.ndim == 1:
        return [classify(v) for v in a.tolist()]
    return [[classify(v) for v in row] for row in a]


def to_input(v):
    """reference value -> what a cell node holds in the library."""
    k = v[0]
    if k == 'blank':
        return [[sh.EMPTY]]
    if k == 'e':
        return [[ERRORS[v[1]]]]
    if k == 'arr':
        return [[to_scalar(x) for x in row] for row in v[1]]
    return [[v[1]]]


def to_scalar(v):
    k = v[0]
    if k == 'blank':
        return sh.EMPTY
    if k == 'e':
        return ERRORS[v[1]]
    return v[1]


def exc_name(e):
    inner = getattr(e, 'ex', None)
    return type(inner if inner is not None else e).__name__


def eval_formula(text, inputs=None, ref='A1', scalar=True, context=None):
    """Returns a classified value (scalar: the top-left element) or
    ('BAD','exc:<Type>') / ('BAD','missing-output')."""
    try:
        dsp = sh.Dispatcher()
        cell = Cell(ref, text, context=context).compile()
        cell.add(dsp)
        sol = dsp({k: to_input(v) for k, v in (inputs or {}).items()})
        if cell.output not in sol:
            return ('BAD', 'missing-output')
        val = sol[cell.output].value
        if scalar:
            return classify(val[0, 0])
        return classify_array(val)
    except Exception as e:
        return ('BAD', 'exc:' + exc_name(e))


def raw_eval(text, inputs=None, ref='A1'):
    dsp = sh.Dispatcher()
    cell = Cell(ref, text).compile()
    cell.add(dsp)
    sol = dsp(inputs or {})
    return sol[cell.output].value
