"""Workbook specs (ref/wbeval.py format) realised on the real library:
dict path (from_dict), file path (openpyxl files + loads/finish), and canonical
solution extraction.  No copy of library logic: only its public entry points."""
import os, shutil, tempfile
import numpy as np
import schedula as sh
from ref import wbeval as W
from xl.evalcell import classify, exc_name


def lib_id(book, sheet, coord):
    return "'[%s]%s'!%s" % (book, sheet.upper().replace("'", "''"), coord)


def name_id(book, name):
    return "'[%s]'!%s" % (book, name.upper())


def const_py(v):
    """reference constant -> python value for dict / openpyxl cell."""
    v = W.val(v)
    k = v[0]
    if k == 'n':
        return int(v[1]) if v[1] == int(v[1]) else v[1]
    if k in ('t', 'b'):
        return v[1]
    if k == 'e':
        return v[1]
    raise ValueError(v)


def books_of(spec):
    out = {}
    for b, s in spec.get('sheets', []):
        out.setdefault(b, [])
        if s not in out[b]:
            out[b].append(s)
    for k in list(spec.get('cells', {})) + list(spec.get('arrays', {})):
        b, s, c = k.split('|')
        out.setdefault(b, [])
        if s not in out[b]:
            out[b].append(s)
    for k in spec.get('names', {}):
        out.setdefault(k.split('|')[0], [])
    for b, sheets in spec.get('sheet_order', {}).items():
        out[b] = [s for s in sheets if s in out.get(b, [])] + [s for s in out.get(b, []) if s not in sheets]
    return out


# ------------------------------------------------------------------ dict path
def to_dict(spec, order=None):
    """{lib id: value/formula text}; formulas fully qualified (home=None)."""
    items = []
    for k, c in spec.get('cells', {}).items():
        b, s, co = k.split('|')
        if c[0] == 'const':
            v = const_py(c[1])
            if isinstance(v, str) and v.startswith('=') and W.val(c[1])[0] == 't':
                v = '="%s"' % v
            items.append((lib_id(b, s, co), v))
        else:
            items.append((lib_id(b, s, co), W.formula(c, ('', ''))))
    for k, n in spec.get('arrays', {}).items():
        b, s, r = k.split('|')
        items.append((lib_id(b, s, r), W.formula(n, ('', ''))))
    for k, n in spec.get('names', {}).items():
        b, nm = k.split('|')
        items.append((name_id(b, nm), W.formula(n, ('', ''))))
    if order is not None:
        items = [items[i] for i in order]
    return dict(items)


def model_from_dict(spec, order=None, circular=False):
    import formulas
    d = to_dict(spec, order)
    if circular:
        return formulas.ExcelModel().from_dict(d, assemble=False).finish(complete=False, circular=True)
    return formulas.ExcelModel().from_dict(d)


# ------------------------------------------------------------------ file path
def write_files(spec, directory, sheet_order=None):
    import openpyxl
    from openpyxl.worksheet.formula import ArrayFormula
    from openpyxl.workbook.defined_name import DefinedName
    books = books_of(spec)
    paths = {}
    import re

    def relink(text, links):
        # spec['links'][book] = the workbook's external-link table: references to a listed book are written in the numeric form [n]Sheet!A1
        for i, tgt in enumerate(links or (), 1):
            text = re.sub(r"'\[%s\](\w+)'!" % re.escape(tgt), r'[%d]\1!' % i, text)
            text = text.replace("'[%s]" % tgt, "'[%d]" % i).replace('[%s]' % tgt, '[%d]' % i)
        return text
    for b, sheets in books.items():
        links = (spec.get('links') or {}).get(b)
        wb = openpyxl.Workbook()
        wb.remove(wb.active)
        if links:
            from openpyxl.packaging.relationship import Relationship
            from openpyxl.workbook.external_link.external import ExternalLink, ExternalBook, ExternalSheetNames
            for tgt in links:
                el = ExternalLink(externalBook=ExternalBook(sheetNames=ExternalSheetNames(sheetName=list(books.get(tgt, ['Sheet1'])))))
                el.file_link = Relationship(type='externalLinkPath', Target=tgt, TargetMode='External')
                wb._external_links.append(el)
        order = list(sheets)
        if sheet_order and b in sheet_order:
            order = sheet_order[b]
        for s in order or ['Sheet1']:
            wb.create_sheet(s)
        for k, c in spec.get('cells', {}).items():
            bb, s, co = k.split('|')
            if bb != b:
                continue
            ws = wb[s]
            if c[0] == 'const':
                v = W.val(c[1])
                cell = ws[co]
                cell.value = const_py(v)
                if v[0] == 'e':
                    cell.data_type = 'e'
                elif v[0] == 't':
                    cell.data_type = 's'
            else:
                ws[co] = relink(W.formula(c, (b, s)), links)
        for k, n in spec.get('arrays', {}).items():
            bb, s, r = k.split('|')
            if bb != b:
                continue
            ws = wb[s]
            ws[r.split(':')[0]] = ArrayFormula(r, relink(W.formula(n, (b, s)), links))
            if not spec.get('no_stale_spill'):
                # a file saved by Excel holds the values it cached in every cell of the block: here deliberately stale ones
                c1, r1, c2, r2 = W.parse_rect(r)
                for rr in range(r1, r2 + 1):
                    for cc in range(c1, c2 + 1):
                        if (cc, rr) != (c1, r1):
                            ws[W.coord(cc, rr)] = 987654.5
        for k, n in spec.get('names', {}).items():
            bb, nm = k.split('|')
            if bb != b:
                continue
            home = (b, '\0')       # always sheet-qualified inside a defined name
            wb.defined_names[nm] = DefinedName(nm, attr_text=W.text(n, home))
        p = os.path.join(directory, b)
        wb.save(p)
        paths[b] = p
    return paths


class Scratch:
    def __enter__(self):
        self.dir = tempfile.mkdtemp(prefix='vt_', dir='/dev/shm' if os.path.isdir('/dev/shm') else None)
        return self.dir

    def __exit__(self, *a):
        shutil.rmtree(self.dir, ignore_errors=True)


def model_from_files(spec, directory, load=None, sheet_order=None, circular=False):
    import formulas
    paths = write_files(spec, directory, sheet_order)
    load = load or list(paths)
    m = formulas.ExcelModel().loads(*[paths[b] for b in load])
    return m.finish(circular=circular)


# ------------------------------------------------------------------ solutions
def cell_value(sol, spec, k):
    """classified value the solution holds for cell key k, or None when absent."""
    b, s, co = k.split('|')
    i = lib_id(b, s, co)
    if i in sol:
        v = sol[i]
        v = v.value if hasattr(v, 'value') else v
        return classify(np.asarray(v, object).ravel()[0])
    for ak in spec.get('arrays', {}):
        ab, as_, r = ak.split('|')
        if (ab, as_) != (b, s):
            continue
        c1, r1, c2, r2 = W.parse_rect(r)
        c, rr = W.parse_coord(co)
        if c1 <= c <= c2 and r1 <= rr <= r2:
            j = lib_id(ab, as_, r)
            if j in sol:
                return classify(np.asarray(sol[j].value, object)[rr - r1, c - c1])
    return None


def canon_solution(sol, spec, keys):
    return {k: cell_value(sol, spec, k) for k in keys}


def compare(sol, spec, ref, skip_blank=True):
    """list of (cell key, got, expected) where the library's solution differs from the reference."""
    from ref.values import close, BLANK, N
    diffs = []
    for k, exp in ref.items():
        got = cell_value(sol, spec, k)
        if got is None:
            if exp == BLANK:
                continue
            diffs.append((k, 'absent', exp))
            continue
        if exp == BLANK and got in (BLANK, ):
            continue
        if not (got == exp or close(got, exp, 1e-12)):
            diffs.append((k, got, exp))
    return diffs


def run_guarded(fn):
    try:
        return fn(), None
    except Exception as e:
        import traceback
        return None, 'exc:%s:%s' % (exc_name(e), traceback.format_exc().strip().split('\n')[-1][:120])
