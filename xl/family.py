"""The workbook family shared by C03/C07/C08/C09/C15/C16: acyclic dependency
shapes over up to 4 formula cells and 4 constants on 2 books x 2 sheets, every
edge realised in one of the reference forms."""
import itertools
from ref import wbeval as W

B1, B2 = 'b.xlsx', 'c.xlsx'
CONSTS = [(B1, 'S', 'A1'), (B1, 'S', 'A2'), (B1, 'T', 'A1'), (B2, 'U', 'A1')]
CVALS = [['n', 2.0], ['n', 3.0], ['n', 5.0], ['n', 7.0]]
FCELLS = [(B1, 'S', 'C1'), (B1, 'S', 'C3'), (B1, 'T', 'C1'), (B2, 'U', 'C1')]
OPS = ['+', '&', '*', '-']
FORMS = ['cell', 'range', 'col', 'name', 'spill', 'spillsum']
KINDS = {'text': ['t', 'x'], 'numtext': ['t', '4'], 'bool': ['b', True], 'error': ['e', '#N/A'], 'blank': None,
         'frac': ['n', 0.5], 'neg': ['n', -2.0], 'etext': ['t', ''], 'div0': ['e', '#DIV/0!']}


def below(coord):
    c, r = W.parse_coord(coord)
    return W.coord(c, r + 1)


def target(i):
    """node index: 0..3 constants, 4.. formula cells."""
    return CONSTS[i] if i < 4 else FCELLS[i - 4]


def ref_node(spec, i, form):
    b, s, co = target(i)
    if form == 'cell':
        return ['cell', b, s, co]
    if form == 'range':
        return ['fn', 'SUM', [['rng', b, s, '%s:%s' % (co, below(co))]]]
    if form == 'col':
        assert i < 4
        return ['fn', 'SUM', [['col', b, s, 'A']]]
    if form == 'name':
        spec['names']['%s|NAME%d' % (B1, i)] = ['cell', b, s, co]
        return ['name', B1, 'NAME%d' % i]
    if form in ('spill', 'spillsum'):
        r = 2 * i + 1
        ar = 'G%d:G%d' % (r, r + 1)
        spec['arrays']['%s|S|%s' % (B1, ar)] = ['op', '+', ['rng', b, s, '%s:%s' % (co, below(co))], ['num', 0]]
        if form == 'spill':
            return ['cell', B1, 'S', 'G%d' % r]
        return ['fn', 'SUM', [['rng', B1, 'S', ar]]]
    raise ValueError(form)


def build(shape, forms=None, kinds=None):
    """shape: list over formula cells of dependency index tuples; forms: same
    structure with a form per edge (default 'cell'); kinds: {const index: kind}."""
    spec = {'cells': {}, 'arrays': {}, 'names': {}, 'sheets': [[B1, 'S'], [B1, 'T'], [B2, 'U']]}
    used = set(i for deps in shape for i in deps if i < 4)
    for i, (b, s, co) in enumerate(CONSTS):
        v = CVALS[i]
        if kinds and i in kinds:
            v = KINDS[kinds[i]]
        if v is not None and (i in used or True):
            spec['cells'][W.key(b, s, co)] = ['const', v]
    for j, deps in enumerate(shape):
        node = None
        for e, i in enumerate(deps):
            f = (forms[j][e] if forms else 'cell')
            r = ref_node(spec, i, f)
            node = r if node is None else ['op', OPS[j], node, r]
        b, s, co = FCELLS[j]
        spec['cells'][W.key(b, s, co)] = node
    return spec


def shapes(n, maxdeps=2):
    """all dependency shapes over n formula cells: cell j depends on a non-empty
    subset (size <= maxdeps) of the constants and the earlier formula cells."""
    def rec(j):
        if j == n:
            yield []
            return
        avail = list(range(4)) + [4 + x for x in range(j)]
        for k in range(1, maxdeps + 1):
            for deps in itertools.combinations(avail, k):
                for rest in rec(j + 1):
                    yield [list(deps)] + rest
    # build front to back
    out = []
    for s in rec(0):
        out.append(s)
    return out


def allowed_forms(i):
    return [f for f in FORMS if not (f == 'col' and i >= 4)]


def form_deviations(shape, k):
    """default forms with at most k edges changed (deviation-bounded product)."""
    edges = [(j, e) for j, deps in enumerate(shape) for e in range(len(deps))]
    base = [['cell'] * len(deps) for deps in shape]
    yield base
    for m in range(1, k + 1):
        for pos in itertools.combinations(edges, m):
            choices = [[f for f in allowed_forms(shape[j][e]) if f != 'cell'] for j, e in pos]
            for combo in itertools.product(*choices):
                forms = [list(x) for x in base]
                for (j, e), f in zip(pos, combo):
                    forms[j][e] = f
                # two edges through the same spill range would be the same array: fine (same definition)
                yield forms


def cell_keys(spec):
    return list(spec['cells'])
