#!/bin/bash
# run the repo's baseline suite; print summary + compare against the stable-pass list
cd ${1:-/repo} && /venv/bin/python -m pytest -q -p no:cacheprovider --timeout=900 --continue-on-collection-errors --junitxml=/tmp/vt_junit.xml -n 12 2>&1 | tail -5
/venv/bin/python - <<'PY'
import json, xml.etree.ElementTree as ET
base=set(json.load(open('/root/.vp/BASELINE.json'))['stable_pass'])
t=ET.parse('/tmp/vt_junit.xml'); ok=set()
for tc in t.iter('testcase'):
    if not any(c.tag in('failure','error','skipped') for c in tc):
        ok.add('%s::%s'%(tc.get('classname'),tc.get('name')))
miss=sorted(base-ok)
print('baseline stable:',len(base),'passing now:',len(base&ok),'MISSING:',miss[:10])
PY
