#!/usr/bin/env python3
"""Copies the deliverables of the mutant-author agents from /tmp/mut/out/<ID>/ into /verif/seeded/<ID>-<n>/ with a meta.json
that records what the change needs to manifest and what was confirmed here."""
import json, os, re, shutil, sys
OUT = '/tmp/mut/out'
DST = '/verif/seeded'
extra = json.load(open('/verif/seeded/detection.json')) if os.path.exists('/verif/seeded/detection.json') else {}
for ID in sorted(os.listdir(OUT)):
    d = os.path.join(OUT, ID)
    notes = os.path.join(d, 'notes.json')
    if not os.path.exists(notes):
        continue
    notes = json.load(open(notes))
    for n, m in enumerate(notes['mutants'], 1):
        key = '%s-%d' % (ID, n)
        log = '/tmp/mut/eval_%s_%d.log' % (ID, n)
        ev = open(log).read() if os.path.exists(log) else ''
        tests = re.findall(r'^\d+ failed, \d+ passed.*|^\d+ passed.*', ev, re.M)
        exits = re.findall(r'^exit (\d+)', ev, re.M)
        dst = os.path.join(DST, key)
        os.makedirs(dst, exist_ok=True)
        shutil.copy(os.path.join(d, 'patch%d.diff' % n), os.path.join(dst, 'patch.diff'))
        shutil.copy(os.path.join(d, 'demo%d.py' % n), os.path.join(dst, 'demo.py'))
        meta = {
            'property': ID, 'what': m.get('what'), 'needs_to_manifest': m.get('needs_to_manifest'),
            'author': 'independent sub-agent given only the property text and a scratch worktree of /repo',
            'confirmed_here': {
                'tests_with_change': tests[-1] if tests else m.get('tests_run'),
                'demo_without_change_exit': int(exits[0]) if exits else None,
                'demo_with_change_exit': int(exits[1]) if len(exits) > 1 else None,
                'how': 'tools/eval_mutant.sh %s %d (scratch worktree /tmp/mut/%s: demo without / with the change, repository test suite with the change, then VERIF_REPO=<worktree> ./check %s quick)' % (ID, n, ID, ID),
                'demo_cmd': 'cd <worktree with patch applied> && PYTHONPATH=$PWD /venv/bin/python demo.py   # exit 1 with the change, 0 without',
            },
        }
        meta.update(extra.get(key, {}))
        json.dump(meta, open(os.path.join(dst, 'meta.json'), 'w'), indent=1)
        print(key, meta['confirmed_here']['tests_with_change'], exits[:2])
