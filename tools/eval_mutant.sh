#!/bin/bash
# tools/eval_mutant.sh <ID> <n> [tier] [checks...]: confirm a seeded change (tests still pass, demo fails with / passes without)
# in its scratch worktree /tmp/mut/<ID>, then run the property's check (and optional others) against that worktree.
ID=$1; N=$2; TIER=${3:-quick}; shift 3 2>/dev/null
CHECKS=${@:-$ID}
BASE=${MUTBASE:-/tmp/mut}; WT=$BASE/$ID; OUT=$BASE/out/$ID
cd $WT || exit 2
git checkout -q -- . ; git clean -fdq
echo "== demo without change"; PYTHONPATH=$WT /venv/bin/python -W ignore $OUT/demo$N.py >$BASE/demo_without_$ID.log 2>&1; echo "exit $?"
git apply $OUT/patch$N.diff || { echo "PATCH DOES NOT APPLY"; exit 2; }
echo "== demo with change"; PYTHONPATH=$WT /venv/bin/python -W ignore $OUT/demo$N.py >$BASE/demo_with_$ID.log 2>&1; echo "exit $?"; tail -3 $BASE/demo_with_$ID.log
if [ "$SKIPTESTS" != 1 ]; then
echo "== test suite with change"; /venv/bin/python -m pytest -q -p no:cacheprovider --timeout=900 -n 8 2>&1 | tail -1
fi
for C in $CHECKS; do
  echo "== check $C $TIER against the changed tree"
  (cd /verif && VERIF_REPO=$WT ./check $C $TIER 2>&1 | grep -v "^KNOWN-FINDING" | tail -4)
done
git checkout -q -- . ; git clean -fdq
