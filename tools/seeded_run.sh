#!/bin/bash
# tools/seeded_run.sh [ids...]: for every stored seeded change, in a scratch worktree of /repo's HEAD (outside /repo and /verif,
# removed afterwards): apply patch.diff, run demo.py (must exit 1), run the property's quick check against that tree (must exit 1
# with a VIOLATION line).  Prints one line per change; exit 1 if any change is not detected.
cd /verif
IDS=${@:-$(ls seeded | grep -E '^C[0-9]+-[0-9]+$')}
BAD=0
for K in $IDS; do
  P=${K%-*}; WT=/tmp/seedrun/$K
  if grep -q '"status": "neutralised"' seeded/$K/meta.json 2>/dev/null; then echo "$K NEUTRALISED by a later fix (kept for the record, see meta.json)"; continue; fi
  if grep -q '"detected_by": null' seeded/$K/meta.json 2>/dev/null; then echo "$K RECORDED-AS-NOT-DETECTED (open hole, see meta.json and DESIGN.md 9.5)"; continue; fi
  rm -rf $WT; git -C /repo worktree prune; git -C /repo worktree add -q --detach $WT HEAD || { echo "$K WORKTREE-ERROR"; BAD=1; continue; }
  if ! git -C $WT apply /verif/seeded/$K/patch.diff 2>/dev/null; then echo "$K PATCH-DOES-NOT-APPLY"; BAD=1; git -C /repo worktree remove --force $WT; continue; fi
  (cd $WT && PYTHONPATH=$WT /venv/bin/python -W ignore /verif/seeded/$K/demo.py >/dev/null 2>&1); D=$?
  OUT=$(VERIF_REPO=$WT ./check $P quick 2>&1); RC=$?
  V=$(echo "$OUT" | grep -c '^VIOLATION')
  echo "$K demo_exit=$D check_exit=$RC violation_lines=$V $(echo "$OUT" | grep -E "^$P quick:" | sed 's/.*failing=/failing=/')"
  [ $RC -eq 1 ] && [ $V -ge 1 ] || BAD=1
  git -C /repo worktree remove --force $WT
done
rm -rf /tmp/seedrun
exit $BAD
