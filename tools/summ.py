import json,sys,collections
prop=sys.argv[1]; keys=sys.argv[2].split(',') if len(sys.argv)>2 else ['cls']
c=collections.Counter(); ex={}
for l in open('/verif/scratch/%s-fails.jsonl'%prop):
    d=json.loads(l); f=d['f']
    k=tuple(f['cls'] if x=='cls' else f.get(x) if x in('got','exp') else f['fields'].get(x) for x in keys)
    c[k]+=1; ex.setdefault(k,(d['case'],f['got'],f['exp'],f['fields'].get('formula') or f['fields'].get('text')))
for k,n in sorted(c.items(),key=lambda kv:str(kv[0])): print(n,k,ex[k])
