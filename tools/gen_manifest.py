#!/usr/bin/env python3
"""Regenerates MANIFEST.json from checks/*.py metadata (MANIFEST dict in each
module) so the file is always valid and current."""
import json, os, re, ast
HERE = os.path.dirname(os.path.dirname(os.path.abspath(__file__)))
props = [json.loads(l) for l in open(os.path.join(HERE, 'properties.jsonl'))]
checks, na = [], []
for p in props:
    pid = p['id']
    path = os.path.join(HERE, 'checks', pid.lower() + '.py')
    meta = None
    enabled = open(os.path.join(HERE, 'tools', 'enabled.txt')).read().split()
    if os.path.exists(path) and pid in enabled:
        src = open(path).read()
        m = re.search(r'^MANIFEST = (\{.*?^\})', src, re.S | re.M)
        if m:
            meta = ast.literal_eval(m.group(1))
    if meta is None:
        na.append({'property_id': pid, 'reason': 'check not built yet (planned in DESIGN.md section 5); nothing is claimed for it'})
        continue
    checks.append({
        'property_id': pid,
        'quick_cmd': './check %s quick' % pid,
        'thorough_cmd': './check %s thorough' % pid,
        'evidence_file': '/verif/evidence/%s.json' % pid,
        'replay_cmd_template': './check %s --replay {path}' % pid,
        'engine': meta.get('engine', 'E1'),
        'level_claimed': {'category': meta.get('category', 'model_checking'), 'text': meta['text'],
                          'design_ref': 'DESIGN.md section 5, ' + pid},
        'level_note': meta['note'],
        'technique': meta['technique'],
    })
man = {
    'version': 1,
    'setup_cmd': 'cd /verif && ./setup.sh',
    'hooks': {
        'guard': 'FORMULAS_VERIF',
        'enable': 'none needed: every seam is a harness-side monkeypatch installed in the checking process (DESIGN.md 4.4); '
                  'checks import formulas from /repo working tree directly, there is no build step',
        'baseline_off_cmd': 'cd /repo && /venv/bin/python -m pytest -ra -q -p no:cacheprovider --timeout=900 --continue-on-collection-errors',
        'source_commits': [],
        'add_only': True,
    },
    'engines': [
        {'name': 'E1', 'path': 'mc/core.py', 'kind_free_text': 'bounded exhaustive case-space exploration of the real code against a reference model, 16 fork workers',
         'serves_properties': [c['property_id'] for c in checks if c['engine'] == 'E1']},
        {'name': 'E2', 'path': 'mc/explore.py', 'kind_free_text': 'explicit-state BFS over operation histories on real model objects with deep canonical state fingerprints',
         'serves_properties': [c['property_id'] for c in checks if c['engine'] == 'E2']},
        {'name': 'E3', 'path': 'mc/choice.py', 'kind_free_text': 'choice-point exploration of orders / environment answers / fault sets at harness seams',
         'serves_properties': [c['property_id'] for c in checks if c['engine'] == 'E3']},
    ],
    'checks': checks,
    'not_applicable': na,
    'notes': 'All checks explore executions of the implementation itself (no separate model), so traces_validated_against_impl equals transitions. '
             'Known genuine defects: known_findings.json; fixes: "fix:" commits in /repo listed there as fixed.',
}
json.dump(man, open(os.path.join(HERE, 'MANIFEST.json'), 'w'), indent=1)
print('checks:', [c['property_id'] for c in checks], 'not_applicable:', len(na))
