#!/bin/bash
# tools/run_all.sh [tier] : run every registered check, print one summary line each
TIER=${1:-quick}
cd /verif
for c in $(cat tools/enabled.txt); do
  ./check $c $TIER > /tmp/runall_$c.log 2>&1; rc=$?
  echo "$c rc=$rc $(grep -E "^$c $TIER:" /tmp/runall_$c.log | tail -1) $(grep -c '^KNOWN-FINDING' /tmp/runall_$c.log) known-lines $(grep -c '^VIOLATION' /tmp/runall_$c.log) violation-lines"
done
