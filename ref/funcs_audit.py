"""Audit of ref/funcs.py against the values Excel computed for the formulas of
test.xlsx (sheets LOGICAL, MATH & TRIG, TEXT, STATISTICAL, INFORMATION).
Every corpus formula the small evaluator below covers is evaluated with the
*reference* library and must agree with the cached value; a disagreement is an
oracle bug.  `python -m ref.funcs_audit [-v]`."""
import os, re, sys, json, collections
from . import funcs as F
from . import scalar as S
from .values import *

REPO = os.environ.get('VERIF_REPO', '/repo')
BOOK = os.path.join(REPO, 'test', 'test_files', 'test.xlsx')
SHEETS = ['LOGICAL', 'MATH & TRIG', 'TEXT', 'STATISTICAL', 'INFORMATION']
CACHE = os.path.join(os.path.dirname(os.path.dirname(os.path.abspath(__file__))), 'scratch', 'c12-corpus-cache.json')


# array-context artefacts outside C12's scalar domain (lifting is C05): skipped, listed in the statistics
QUIRKS = {('LOGICAL', 'AF11'): 'single-cell array formula {=IF(B11:F11,1)} with the else-value omitted is cached as 0, not FALSE'}


class Unsupported(Exception):
    pass


def cell_value(c):
    v = c.value
    if v is None:
        return BLANK
    if c.data_type == 'e':
        return ('e', str(v))
    if isinstance(v, bool):
        return B(v)
    if isinstance(v, (int, float)):
        return N(v)
    if isinstance(v, str):
        return T(v)
    raise Unsupported(repr(v))


def load():
    """{sheet: {'vals': {coord: value}, 'forms': [(coord, text, array_ref|None)]}} (cached as JSON beside the book's stat)"""
    st = os.stat(BOOK)
    key = [BOOK, st.st_size, int(st.st_mtime)]
    try:
        with open(CACHE) as fh:
            d = json.load(fh)
        if d['key'] == key:
            return d['sheets']
    except (OSError, ValueError, KeyError):
        pass
    import openpyxl
    wf, wv = openpyxl.load_workbook(BOOK), openpyxl.load_workbook(BOOK, data_only=True)
    out = {}
    for sn in SHEETS:
        vals, forms = {}, []
        for row in wv[sn].iter_rows():
            for c in row:
                if c.value is not None:
                    try:
                        vals[c.coordinate] = list(cell_value(c))
                    except Unsupported:
                        pass
        for row in wf[sn].iter_rows():
            for c in row:
                v = c.value
                if hasattr(v, 'text'):
                    forms.append([c.coordinate, v.text, v.ref])
                elif isinstance(v, str) and v.startswith('='):
                    forms.append([c.coordinate, v, None])
        out[sn] = {'vals': vals, 'forms': forms}
    try:
        os.makedirs(os.path.dirname(CACHE), exist_ok=True)
        with open(CACHE + '.%d' % os.getpid(), 'w') as fh:
            json.dump({'key': key, 'sheets': out}, fh)
        os.replace(CACHE + '.%d' % os.getpid(), CACHE)
    except OSError:
        pass
    return out


# ------------------------------------------------------------------ mini parser
TOK = re.compile(r'''\s*(?:
  (?P<str>"(?:[^"]|"")*") | (?P<err>\#(?:N/A|DIV/0!|VALUE!|REF!|NAME\?|NUM!|NULL!)) |
  (?P<fn>[A-Za-z_][A-Za-z0-9_.]*)\s*\( |
  (?P<ref>\$?[A-Z]{1,3}\$?\d+(?::\$?[A-Z]{1,3}\$?\d+)?)(?![A-Za-z0-9_(]) |
  (?P<num>\d+\.?\d*(?:[eE][+-]?\d+)?|\.\d+) | (?P<name>[A-Za-z_][A-Za-z0-9_.]*) |
  (?P<op><>|<=|>=|[-+*/^&=<>%(),;{}]) )''', re.X)


def tokens(text):
    pos, out = 0, []
    text = text.strip()
    while pos < len(text):
        m = TOK.match(text, pos)
        if not m:
            raise Unsupported('token at %r' % text[pos:pos + 10])
        out.append((m.lastgroup, m.group(m.lastgroup)))
        pos = m.end()
    return out


def col2n(s):
    n = 0
    for ch in s:
        n = n * 26 + ord(ch) - 64
    return n


def n2col(n):
    s = ''
    while n:
        n, r = divmod(n - 1, 26)
        s = chr(65 + r) + s
    return s


def corners(ref):
    a, _, b = ref.replace('$', '').partition(':')
    ma, mb = re.fullmatch(r'([A-Z]+)(\d+)', a), re.fullmatch(r'([A-Z]+)(\d+)', b or a)
    return int(ma.group(2)), col2n(ma.group(1)), int(mb.group(2)), col2n(mb.group(1))


PREC = {'=': 1, '<>': 1, '<': 1, '>': 1, '<=': 1, '>=': 1, '&': 2, '+': 3, '-': 3, '*': 4, '/': 4, '^': 5}


class Ev:
    """evaluates one formula to an argument descriptor / matrix of answer sets"""

    def __init__(self, vals, text, array_ctx):
        self.vals, self.t, self.i, self.array_ctx = vals, tokens(text.lstrip('=')), 0, array_ctx
        self.top = None

    def peek(self):
        return self.t[self.i] if self.i < len(self.t) else (None, None)

    def take(self, v=None):
        k = self.peek()
        if v is not None and k[1] != v:
            raise Unsupported('expected %s' % v)
        self.i += 1
        return k

    def cell(self, r, c):
        return tuple(self.vals.get('%s%d' % (n2col(c), r), BLANK))

    def one(self, d):
        """descriptor -> single typed answer or Unsupported"""
        if d[0] == 'sets':
            if len(d[1]) != 1:
                raise Unsupported('multi-answer operand')
            return next(iter(d[1]))
        return F.scalar(d)

    def expr(self, minp=1):
        left = self.unary()
        while self.peek()[0] == 'op' and self.peek()[1] in PREC and PREC[self.peek()[1]] >= minp:
            op = self.take()[1]
            right = self.expr(PREC[op] + 1)
            try:
                r = S.binary(op, self.one(left), self.one(right))
            except F.Und:
                raise Unsupported('operator on a range')
            if len(r) != 1 or S.REALROOT in r:
                raise Unsupported('multi-answer operator')
            left = ('v', next(iter(r)))
        return left

    def unary(self):
        k, v = self.peek()
        if k == 'op' and v in '+-':
            self.take()
            r = S.unary('u' + v, self.one(self.unary()))
            return ('v', next(iter(r)))
        d = self.primary()
        while self.peek() == ('op', '%'):
            self.take()
            d = ('v', next(iter(S.unary('%', self.one(d)))))
        return d

    def primary(self):
        k, v = self.take()
        if k == 'str':
            return ('v', T(v[1:-1].replace('""', '"')))
        if k == 'err':
            return ('v', ('e', v))
        if k == 'num':
            return ('v', N(float(v)))
        if k == 'name':
            if v.upper() in ('TRUE', 'FALSE'):
                return ('v', B(v.upper() == 'TRUE'))
            raise Unsupported('name %s' % v)
        if k == 'ref':
            r1, c1, r2, c2 = corners(v)
            if ':' not in v:
                return ('c', self.cell(r1, c1))
            return ('r', [[self.cell(r, c) for c in range(c1, c2 + 1)] for r in range(r1, r2 + 1)])
        if k == 'fn':
            args = []
            if self.peek() == ('op', ')'):
                self.take()
            else:
                while True:
                    if self.peek()[1] in (',', ')'):
                        args.append(('omit',))
                    else:
                        args.append(self.expr())
                    if self.take()[1] == ')':
                        break
            top = self.top is None
            self.top = self.top or v
            return self.call(v, args, top and self.i == len(self.t))
        if (k, v) == ('op', '('):
            d = self.expr()
            self.take(')')
            return d if d[0] != 'c' else ('v', N(0) if d[1] == BLANK else d[1])
        if (k, v) == ('op', '{'):
            rows, row = [], []
            while True:
                e = self.unary()
                row.append(self.one(e))
                s = self.take()[1]
                if s in ';}':
                    rows.append(row)
                    row = []
                if s == '}':
                    return ('a', rows)
        raise Unsupported('token %s' % v)

    def call(self, name, args, outermost):
        if any(a[0] in ('sets', 'matrix') for a in args):
            args = [('v', self.one(a)) if a[0] == 'sets' else a for a in args]
            if any(a[0] == 'matrix' for a in args):
                raise Unsupported('nested lifted call')
        cname = F.canon(name)
        if cname not in F.FUNCS:
            raise Unsupported('function %s' % cname)
        lift = F.LIFT[cname]
        idx = range(len(args)) if lift == 'all' else (lift or ())
        multi = [i for i in idx if i < len(args) and args[i][0] in 'ra' and len(F.flat(args[i])) > 1]
        if not multi:
            r = F.call(name, args)
            if r is None:
                raise F.Und()
            return ('sets', r)
        if not (self.array_ctx and outermost):
            raise Unsupported('implicit intersection / nested lifting')
        R = max(len(args[i][1]) for i in multi)
        C = max(len(args[i][1][0]) for i in multi)
        out = []
        for i in range(R):
            row = []
            for j in range(C):
                el, na = [], False
                for p, a in enumerate(args):
                    if p in multi:
                        rr, cc = len(a[1]), len(a[1][0])
                        ii, jj = (0 if rr == 1 else i), (0 if cc == 1 else j)
                        if ii >= rr or jj >= cc:
                            na = True
                            break
                        el.append(('c' if a[0] == 'r' else 'v', tuple(a[1][ii][jj])))
                    else:
                        el.append(a)
                row.append({NA} if na else F.call(name, el))
            out.append(row)
        # cells beyond the array: the IS... functions see the #N/A filler (ISNA -> TRUE), all others give #N/A
        fill = F.call(name, [('v', NA) if p in multi else a for p, a in enumerate(args)]) if cname.startswith('IS') else {NA}
        return ('matrix', out, fill)


def expected_at(res, i, j):
    """answer set for the cell at offset (i, j) of the formula's range; None = undecided"""
    if res[0] == 'matrix':
        m = res[1]
        R, C = len(m), len(m[0])
        ii, jj = (0 if R == 1 else i), (0 if C == 1 else j)
        return m[ii][jj] if ii < R and jj < C else res[2]
    if res[0] == 'sets':
        return res[1]
    return {N(0) if res[1] == BLANK else tuple(res[1])} if res[0] in 'vc' else None


def audit(verbose=False):
    """-> (stats, disagreements)"""
    stats = {'audited_cells': 0, 'audited_formulas': 0, 'undecided': 0, 'unsupported': 0, 'per_function': collections.Counter()}
    bad, why = [], collections.Counter()
    for sn, sh in load().items():
        vals = sh['vals']
        for coord, text, aref in sh['forms']:
            if (sn, coord) in QUIRKS:
                stats['skipped_quirks'] = stats.get('skipped_quirks', 0) + 1
                continue
            ev = Ev(vals, text, aref is not None)
            try:
                res = ev.expr()
                if ev.i != len(ev.t):
                    raise Unsupported('trailing tokens')
            except Unsupported as e:
                stats['unsupported'] += 1
                why[str(e)[:40]] += 1
                continue
            except F.Und:
                stats['undecided'] += 1
                if verbose:
                    print('undecided', sn, coord, text)
                continue
            top = ev.top or ''
            r1, c1, r2, c2 = corners(aref or coord)
            n = 0
            for r in range(r1, r2 + 1):
                for c in range(c1, c2 + 1):
                    exp = expected_at(res, r - r1, c - c1)
                    if exp is None:
                        continue
                    got = tuple(vals.get('%s%d' % (n2col(c), r), T('')))   # an empty-text result is stored as no value
                    n += 1
                    if not F.accepted(got, exp, F.tol(top) if top else 1e-12):
                        bad.append((sn, '%s%d' % (n2col(c), r), text, got, sorted(map(str, exp))))
            if n:
                stats['audited_formulas'] += 1
                stats['audited_cells'] += n
                stats['per_function'][F.canon(top)] += 1
            else:
                stats['undecided'] += 1
    stats['per_function'] = dict(sorted(stats['per_function'].items()))
    stats['not_audited'] = sorted(set(F.FUNCS) - set(stats['per_function']))
    if verbose:
        print('unsupported reasons:', why.most_common(12))
    return stats, bad


if __name__ == '__main__':
    st, bad = audit('-v' in sys.argv)
    print(json.dumps(st, indent=1))
    for b in bad:
        print('DISAGREE', b)
    print('%d disagreement(s)' % len(bad))
    sys.exit(1 if bad else 0)
