"""C11 data/oracle module: Excel's argument counts, benign default calls and the
error-consumption table for every worksheet function the library registers.
Written from Excel's function reference; independent of /repo code.

ARITY[name] = (min, max, defaults)
    min/max: Excel's admissible argument counts (max None = variadic, up to 255;
    the check caps it at min+3).  defaults: one benign value per position
    (python number/str/bool, or a list of rows for an array/range argument).
Aliases with an `_XLFN.` / `_XLFN._XLWS.` / `__XLUDF.` prefix are looked up by
their base name."""
from .values import N, T, B, BLANK, ERRS

V3 = [[1], [2], [3]]          # 3x1 vector
H3 = [[1, 2, 3]]
M22 = [[1, 2], [3, 4]]
D1, D2, D3 = 43831, 44197, 44562      # 2020-01-01, 2021-01-01, 2022-01-01 (1900 date system serials)
NUM4 = [1, 2, 3, 4]

ARITY = {
    # --- math & trig
    'ABS': (1, 1, [-2.5]), 'ACOS': (1, 1, [0.5]), 'ACOSH': (1, 1, [2]), 'ACOT': (1, 1, [2]), 'ACOTH': (1, 1, [2]),
    'ARABIC': (1, 1, ['XIV']), 'ASIN': (1, 1, [0.5]), 'ASINH': (1, 1, [1]), 'ATAN': (1, 1, [1]), 'ATAN2': (2, 2, [1, 2]),
    'ATANH': (1, 1, [0.5]), 'CEILING': (2, 2, [2.5, 1]), 'CEILING.MATH': (1, 3, [2.5, 1, 0]),
    'CEILING.PRECISE': (1, 2, [2.5, 1]), 'ISO.CEILING': (1, 2, [2.5, 1]), 'COS': (1, 1, [1]), 'COSH': (1, 1, [1]),
    'COT': (1, 1, [1]), 'COTH': (1, 1, [1]), 'CSC': (1, 1, [1]), 'CSCH': (1, 1, [1]), 'DECIMAL': (2, 2, ['FF', 16]),
    'DEGREES': (1, 1, [1]), 'EVEN': (1, 1, [3]), 'EXP': (1, 1, [1]), 'FACT': (1, 1, [5]), 'FACTDOUBLE': (1, 1, [5]),
    'FLOOR': (2, 2, [2.5, 1]), 'FLOOR.MATH': (1, 3, [2.5, 1, 0]), 'FLOOR.PRECISE': (1, 2, [2.5, 1]),
    'GCD': (1, None, [4, 6, 8, 10]), 'INT': (1, 1, [2.5]), 'LCM': (1, None, [4, 6, 8, 10]), 'LN': (1, 1, [2]),
    'LOG': (1, 2, [100, 10]), 'LOG10': (1, 1, [100]), 'MDETERM': (1, 1, [M22]), 'MINVERSE': (1, 1, [M22]),
    'MMULT': (2, 2, [M22, [[1, 0], [0, 1]]]), 'MOD': (2, 2, [7, 3]), 'MROUND': (2, 2, [7, 3]), 'MUNIT': (1, 1, [2]),
    'ODD': (1, 1, [2]), 'PI': (0, 0, []), 'POWER': (2, 2, [2, 3]), 'PRODUCT': (1, None, NUM4), 'RADIANS': (1, 1, [90]),
    'RAND': (0, 0, []), 'RANDBETWEEN': (2, 2, [1, 10]), 'ROMAN': (1, 2, [499, 0]), 'ROUND': (2, 2, [2.55, 1]),
    'ROUNDDOWN': (2, 2, [2.55, 1]), 'ROUNDUP': (2, 2, [2.55, 1]), 'SEC': (1, 1, [1]), 'SECH': (1, 1, [1]),
    'SIGN': (1, 1, [-2]), 'SIN': (1, 1, [1]), 'SINH': (1, 1, [1]), 'SQRT': (1, 1, [4]), 'SQRTPI': (1, 1, [2]),
    'SUM': (1, None, NUM4), 'SUMIF': (2, 3, [V3, '>1', [[4], [5], [6]]]), 'SUMPRODUCT': (1, None, [H3, H3, H3, H3]),
    'SUMSQ': (1, None, NUM4), 'TAN': (1, 1, [1]), 'TANH': (1, 1, [1]), 'TRUNC': (1, 2, [2.55, 1]),
    # --- logical
    'AND': (1, None, [True, True, False, True]), 'OR': (1, None, [False, True, False, False]),
    'XOR': (1, None, [True, False, False, False]), 'NOT': (1, 1, [True]), 'TRUE': (0, 0, []), 'FALSE': (0, 0, []),
    'IF': (2, 3, [True, 1, 2]), 'IFS': (2, None, [True, 1, True, 2]), 'IFERROR': (2, 2, [1, 2]), 'IFNA': (2, 2, [1, 2]),
    'SWITCH': (3, None, [1, 1, 'a', 2, 'b', 'c']),
    # --- information
    'ISBLANK': (1, 1, [1]), 'ISERR': (1, 1, [1]), 'ISERROR': (1, 1, [1]), 'ISEVEN': (1, 1, [2]), 'ISLOGICAL': (1, 1, [True]),
    'ISNA': (1, 1, [1]), 'ISNONTEXT': (1, 1, [1]), 'ISNUMBER': (1, 1, [1]), 'ISODD': (1, 1, [3]), 'ISTEXT': (1, 1, ['a']),
    'NA': (0, 0, []), 'T': (1, 1, ['a']),
    # --- statistical
    'AVERAGE': (1, None, NUM4), 'AVERAGEA': (1, None, NUM4), 'AVERAGEIF': (2, 3, [V3, '>1', [[4], [5], [6]]]),
    'CORREL': (2, 2, [[[1], [2], [4]], V3]), 'COUNT': (1, None, NUM4), 'COUNTA': (1, None, NUM4), 'COUNTBLANK': (1, 1, [V3]),
    'COUNTIF': (2, 2, [V3, '>1']), 'FORECAST': (3, 3, [2, [[1], [2], [4]], V3]), 'FORECAST.LINEAR': (3, 3, [2, [[1], [2], [4]], V3]),
    'LARGE': (2, 2, [H3, 2]), 'MAX': (1, None, NUM4), 'MAXA': (1, None, NUM4), 'MEDIAN': (1, None, NUM4),
    'MIN': (1, None, NUM4), 'MINA': (1, None, NUM4), 'NORM.DIST': (4, 4, [1, 0, 1, True]), 'NORM.INV': (3, 3, [0.5, 0, 1]),
    'NORM.S.DIST': (2, 2, [1, True]), 'NORM.S.INV': (1, 1, [0.5]), 'NORMDIST': (4, 4, [1, 0, 1, True]),
    'NORMINV': (3, 3, [0.5, 0, 1]), 'NORMSDIST': (1, 1, [1]), 'NORMSINV': (1, 1, [0.5]),
    'PERCENTILE': (2, 2, [[NUM4], 0.5]), 'PERCENTILE.EXC': (2, 2, [[NUM4], 0.5]), 'PERCENTILE.INC': (2, 2, [[NUM4], 0.5]),
    'QUARTILE': (2, 2, [[NUM4], 1]), 'QUARTILE.EXC': (2, 2, [[NUM4], 1]), 'QUARTILE.INC': (2, 2, [[NUM4], 1]),
    'SLOPE': (2, 2, [[[1], [2], [4]], V3]), 'SMALL': (2, 2, [H3, 2]),
    'STDEV': (1, None, NUM4), 'STDEV.P': (1, None, NUM4), 'STDEV.S': (1, None, NUM4), 'STDEVA': (1, None, NUM4),
    'STDEVP': (1, None, NUM4), 'STDEVPA': (1, None, NUM4), 'VAR': (1, None, NUM4), 'VAR.P': (1, None, NUM4),
    'VAR.S': (1, None, NUM4), 'VARA': (1, None, NUM4), 'VARP': (1, None, NUM4), 'VARPA': (1, None, NUM4),
    # --- financial
    'CUMIPMT': (6, 6, [0.1, 12, 1000, 1, 2, 0]), 'FV': (3, 5, [0.1, 12, -100, -1000, 0]), 'IPMT': (4, 6, [0.1, 1, 12, 1000, 0, 0]),
    'IRR': (1, 2, [[[-100], [60], [60]], 0.1]), 'NPER': (3, 5, [0.1, -200, 1000, 0, 0]), 'NPV': (2, None, [0.1, 1, 2, 3, 4]),
    'PMT': (3, 5, [0.1, 12, 1000, 0, 0]), 'PPMT': (4, 6, [0.1, 1, 12, 1000, 0, 0]), 'PV': (3, 5, [0.1, 12, -100, 0, 0]),
    'RATE': (3, 6, [12, -100, 1000, 0, 0, 0.1]), 'XIRR': (2, 3, [[[-100], [60], [60]], [[D1], [D2], [D3]], 0.1]),
    'XNPV': (3, 3, [0.1, [[-100], [60], [60]], [[D1], [D2], [D3]]]),
    # --- text
    'CHAR': (1, 1, [65]), 'CODE': (1, 1, ['A']), 'CONCAT': (1, None, ['a', 'b', 'c', 'd']),
    'CONCATENATE': (1, None, ['a', 'b', 'c', 'd']), 'FIND': (2, 3, ['b', 'abc', 1]), 'LEFT': (1, 2, ['abc', 2]),
    'LEN': (1, 1, ['abc']), 'LOWER': (1, 1, ['Abc']), 'MID': (3, 3, ['abcdef', 2, 3]), 'REPLACE': (4, 4, ['abcdef', 2, 3, 'x']),
    'RIGHT': (1, 2, ['abc', 2]), 'SEARCH': (2, 3, ['b', 'abc', 1]), 'SUBSTITUTE': (3, 4, ['abcabc', 'b', 'x', 1]),
    'TEXT': (2, 2, [2.5, '0.00']), 'TEXTJOIN': (3, None, [',', True, 'a', 'b', 'c', 'd']), 'TRIM': (1, 1, [' a  b ']),
    'UPPER': (1, 1, ['Abc']), 'VALUE': (1, 1, ['2.5']),
    # --- lookup & reference
    'ADDRESS': (2, 5, [1, 1, 1, True, 'Sheet1']), 'COLUMN': (0, 1, [V3]), 'ROW': (0, 1, [V3]),
    'FILTER': (2, 3, [V3, [[True], [False], [True]], 'none']), 'HLOOKUP': (3, 4, [2, [[1, 2, 3], [4, 5, 6]], 2, False]),
    'INDEX': (2, 4, [M22, 1, 2, 1]), 'LOOKUP': (2, 3, [2, H3, [[4, 5, 6]]]), 'MATCH': (2, 3, [2, H3, 0]),
    'SINGLE': (1, 1, [1]), 'TRANSPOSE': (1, 1, [M22]), 'VLOOKUP': (3, 4, [2, [[1, 4], [2, 5], [3, 6]], 2, False]),
    # --- date & time
    'DATE': (3, 3, [2020, 1, 15]), 'DATEDIF': (3, 3, [D1, D2, 'D']), 'DATEVALUE': (1, 1, ['2020-01-15']), 'DAY': (1, 1, [D1]),
    'EDATE': (2, 2, [D1, 1]), 'HOUR': (1, 1, [0.75]), 'ISOWEEKNUM': (1, 1, [D1]), 'MINUTE': (1, 1, [0.76]),
    'MONTH': (1, 1, [D1]), 'NOW': (0, 0, []), 'SECOND': (1, 1, [0.7601]), 'TIME': (3, 3, [12, 30, 15]),
    'TIMEVALUE': (1, 1, ['12:30']), 'TODAY': (0, 0, []), 'WEEKDAY': (1, 2, [D1, 1]), 'WEEKNUM': (1, 2, [D1, 1]),
    'YEAR': (1, 1, [D1]), 'YEARFRAC': (2, 3, [D1, D2, 0]),
    # --- engineering
    'BIN2DEC': (1, 1, ['101']), 'BIN2HEX': (1, 2, ['101', 4]), 'BIN2OCT': (1, 2, ['101', 4]), 'DEC2BIN': (1, 2, [5, 4]),
    'DEC2HEX': (1, 2, [255, 4]), 'DEC2OCT': (1, 2, [8, 4]), 'HEX2BIN': (1, 2, ['F', 8]), 'HEX2DEC': (1, 1, ['FF']),
    'HEX2OCT': (1, 2, ['F', 4]), 'OCT2BIN': (1, 2, ['7', 4]), 'OCT2DEC': (1, 1, ['17']), 'OCT2HEX': (1, 2, ['17', 4]),
    # --- not Excel worksheet functions: the array-literal constructors of the library (exercised as ={...})
    # and Google Sheets' export placeholder IFERROR(__xludf.DUMMYFUNCTION("..."), cached)
    'ARRAY': (1, 2, [1, 2]), 'ARRAYROW': (1, 4, NUM4), 'DUMMYFUNCTION': (1, 1, ['x']),
}
INTERNAL = {'ARRAY', 'ARRAYROW'}
VOLATILE = {'NOW', 'TODAY', 'RAND', 'RANDBETWEEN'}          # only (a) and (b)
EVEN_COUNTS_ONLY = {'IFS'}                                    # condition/value pairs
# positions where Excel only accepts a reference (the formula is rejected otherwise): always passed as a range
REF_ONLY = {'ROW': {0}, 'COLUMN': {0}, 'COUNTBLANK': {0}, 'COUNTIF': {0}, 'SUMIF': {0, 2}, 'AVERAGEIF': {0, 2}}

# (c) error preservation.  CONSUMED[name]: positions in which a scalar error value is certainly consumed
# (default: every position).  Functions not listed propagate an error given in any argument.
NONE = frozenset()
CONSUMED = {
    # handlers, inspectors
    'IFERROR': NONE, 'IFNA': NONE, 'ISERROR': NONE, 'ISERR': NONE, 'ISNA': NONE, 'ISNUMBER': NONE, 'ISTEXT': NONE,
    'ISNONTEXT': NONE, 'ISLOGICAL': NONE, 'ISBLANK': NONE, 'ISREF': NONE, 'ISFORMULA': NONE, 'ERROR.TYPE': NONE,
    'TYPE': NONE, 'N': NONE,      # (T propagates errors: Excel's cached values in the corpus, T(J35) for all 7 errors)
    # counters / criteria: errors in the scanned range are data, an error criterion selects error cells
    'COUNT': NONE, 'COUNTA': NONE, 'COUNTBLANK': NONE, 'COUNTIF': NONE, 'COUNTIFS': NONE, 'SUMIF': NONE, 'SUMIFS': NONE,
    'AVERAGEIF': NONE, 'AVERAGEIFS': NONE,
    # selectors: condition / key positions only (IF's selected branch is handled in consumed_positions)
    'IF': {0}, 'IFS': {0}, 'SWITCH': {0}, 'CHOOSE': {0}, 'INDEX': {1, 2}, 'MATCH': {0, 2}, 'LOOKUP': {0},
    'VLOOKUP': {0, 2, 3}, 'HLOOKUP': {0, 2, 3}, 'XLOOKUP': {0}, 'FILTER': {1},
    # reference arguments are not evaluated
    'ROW': NONE, 'COLUMN': NONE, 'ROWS': NONE, 'COLUMNS': NONE, 'AREAS': NONE,
    'AGGREGATE': NONE, 'SUBTOTAL': NONE,
    # (NPV: Excel's reference says error values among the value arguments are ignored, but Excel's cached values in the
    # corpus show them propagating; scalar errors are asserted in every position, errors inside arrays are not)
    # not an Excel function
    'DUMMYFUNCTION': NONE,
}
# aggregations over all elements: an error inside an array/range argument at these positions gives an error result
ALL = 'all'
AGG = {n: ALL for n in (
    'SUM PRODUCT SUMSQ SUMPRODUCT AVERAGE AVERAGEA MAX MAXA MIN MINA MEDIAN STDEV STDEV.S STDEV.P STDEVA STDEVP STDEVPA '
    'VAR VAR.S VAR.P VARA VARP VARPA AND OR XOR GCD LCM CONCAT MDETERM MINVERSE MMULT').split()}
AGG.update({'LARGE': {0}, 'SMALL': {0}, 'PERCENTILE': {0}, 'PERCENTILE.INC': {0}, 'PERCENTILE.EXC': {0},
            'QUARTILE': {0}, 'QUARTILE.INC': {0}, 'QUARTILE.EXC': {0}, 'TEXTJOIN': {2, 3, 4, 5}})
# scalar-parameter functions: given the 1x4 array {1,"a",TRUE,#N/A} in one position and scalars elsewhere, Excel
# either lifts the function element by element (4th element is an error) or answers #VALUE! - the result grid
# contains an error.  Not asserted for the functions of CONSUMED and AGG (other positions), for reshaping functions
# and where Excel's treatment of errors inside array arguments is not certain.
LIFT_EXCLUDE = set(CONSUMED) | set(AGG) | VOLATILE | INTERNAL | {
    'TRANSPOSE', 'SINGLE', 'IRR', 'XIRR', 'XNPV', 'CORREL', 'SLOPE', 'FORECAST', 'FORECAST.LINEAR', 'MUNIT', 'NPV', 'T'}

PREFIXES = ('_XLFN._XLWS.', '_XLFN.', '__XLUDF.')


def base_name(name):
    for p in PREFIXES:
        if name.startswith(p):
            return name[len(p):]
    return name


def missing(names):
    """function-table keys that have no arity entry (completeness assertion of the check)."""
    return sorted(n for n in names if base_name(n) not in ARITY)


def counts(name, extra=3):
    lo, hi, _ = ARITY[base_name(name)]
    hi = lo + extra if hi is None else hi
    step = 2 if base_name(name) in EVEN_COUNTS_ONLY else 1
    return list(range(lo, hi + 1, step))


def value_of(d):
    """python default -> reference value."""
    if isinstance(d, bool):
        return B(d)
    if isinstance(d, (int, float)):
        return N(d)
    if isinstance(d, str):
        return T(d)
    if isinstance(d, list):
        return ('arr', [[value_of(x) for x in row] for row in d])
    raise ValueError(d)


def defaults(name, nargs):
    return [value_of(d) for d in ARITY[base_name(name)][2][:nargs]]


# --- the value pool: (tag, value, spelling); spelling 'lit' = written in the formula, 'ref' = passed through cells
ARR_NUM = ('arr', [[N(1), N(2)], [N(3), N(4)]])
ARR_MIX = ('arr', [[N(1), T('a'), B(True), ('e', '#N/A')]])
RNG_BLANK = ('arr', [[N(1)], [BLANK]])
POOL = [
    ('n:0', N(0), 'lit'), ('n:1', N(1), 'lit'), ('n:-1', N(-1), 'lit'), ('n:2', N(2), 'lit'), ('n:0.5', N(0.5), 'lit'),
    ('n:-2.5', N(-2.5), 'lit'), ('n:1E+200', N(1e200), 'lit'),
    ('t:3', T('3'), 'lit'), ('t:abc', T('abc'), 'lit'), ('t:', T(''), 'lit'), ('t:1E+999', T('1E+999'), 'lit'), ('t:cjk', T('\u8a9e'), 'lit'),
    ('b:TRUE', B(True), 'lit'), ('b:FALSE', B(False), 'lit'),
    ('ref:blank', BLANK, 'ref'),
] + [('e:' + e, ('e', e), 'lit') for e in ERRS] + [
    ('arr:2x2', ARR_NUM, 'lit'), ('arr:1x4err', ARR_MIX, 'lit'), ('rng:2x1blank', RNG_BLANK, 'ref'),
    ('ref:emptytext', T(''), 'ref'),
]
TAGS = [p[0] for p in POOL]
# representatives of every kind: used where several positions deviate at once at high arity
REPS = [TAGS.index(t) for t in ('n:0', 'n:1', 'n:-2.5', 'n:1E+200', 't:abc', 't:', 'b:TRUE', 'ref:blank', 'e:#DIV/0!', 'e:#N/A',
                                'arr:1x4err', 'rng:2x1blank')]


def is_array(v):
    return v[0] == 'arr'


def mismatched(args):
    """two array arguments whose shapes cannot be stretched onto each other (neither equal nor 1 in each dimension):
    the library answers BroadcastError by design (pinned by its own test_cell.test_invalid); an escape is accepted."""
    shp = [(len(a[1]), len(a[1][0])) for a in args if is_array(a)]
    return any(not ((r1 == r2 or 1 in (r1, r2)) and (c1 == c2 or 1 in (c1, c2)))
               for i, (r1, c1) in enumerate(shp) for (r2, c2) in shp[i + 1:])


def has_error(v):
    if v[0] == 'e':
        return True
    return v[0] == 'arr' and any(x[0] == 'e' for row in v[1] for x in row)


def truthy(v):
    """IF's reading of a condition: True/False, or None when it is not a number/logical/blank."""
    if v[0] in ('n', 'b'):
        return bool(v[1])
    if v[0] == 'blank':
        return False
    return None


def consumed_positions(name, args):
    """positions of `args` (reference values) whose scalar error must show in the result."""
    b = base_name(name)
    n = len(args)
    if b in VOLATILE:
        return set()
    pos = set(CONSUMED.get(b, range(n)))
    if b == 'IF' and n >= 2:
        c = truthy(args[0])
        if c is True:
            pos.add(1)
        elif c is False and n == 3:
            pos.add(2)
    if b == 'SWITCH' and n >= 3 and args[0][0] in ('n', 't', 'b'):
        # a case key is reached when no earlier key certainly equals the value; an error key that is reached is the result
        def differs(k):
            v = args[0]
            if k[0] not in ('n', 't', 'b'):
                return None if k[0] != 'e' else True
            if k[0] != v[0]:
                return True
            return (k[1].upper() != v[1].upper()) if k[0] == 't' else k[1] != v[1]
        p = 1
        while p + 1 < n:                       # (key, result) pairs; a trailing single argument is the default
            if args[p][0] == 'e':
                pos.add(p)
                break
            if differs(args[p]) is not True:
                break
            p += 2
    if b == 'IFS':
        p = 0
        while p + 1 < n:                       # (condition, result) pairs: a condition is reached when all earlier ones are false
            if args[p][0] == 'e':
                pos.add(p)
                break
            if truthy(args[p]) is not False:
                break
            p += 2
    return {p for p in pos if p < n}


def expect_error(name, args):
    """(c): returns a list of (position, how) obligations: 'top' = top-left element of the result is an error,
    'any' = the result grid contains an error."""
    b = base_name(name)
    out = []
    cons = consumed_positions(name, args)
    for p, a in enumerate(args):
        if a[0] == 'e' and p in cons:
            out.append((p, 'top'))
        elif is_array(a) and has_error(a) and b not in VOLATILE:
            agg = AGG.get(b)
            if agg is not None and (agg == ALL or p in agg):
                out.append((p, 'top'))
            elif b not in LIFT_EXCLUDE and all(not is_array(x) for i, x in enumerate(args) if i != p):
                out.append((p, 'any'))
    return out
