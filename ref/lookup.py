"""Reference definitions of MATCH / INDEX / LOOKUP / VLOOKUP / HLOOKUP and of
the criteria functions COUNTIF / SUMIF / AVERAGEIF (C19).  Written from the
property statement and Excel's documented behaviour; never imports formulas.

Values are ref.values tuples; a vector is a list of values, a table a list of
rows.  Every definition returns a *set* of acceptable answers (more than one
where the statement or Excel leaves the case open) or None when the input is
outside the domain the oracle is prepared to judge (the check then asserts
nothing)."""
import re
from .values import *

RANK = {'n': 0, 't': 1, 'b': 2}


def skey(v):
    """Excel sort key inside one type: numbers by value, text ignoring case,
    FALSE < TRUE; across types numbers < text < logicals."""
    return RANK[v[0]], (v[1].upper() if v[0] == 't' else v[1])


def value0(v):
    """what a formula shows when it returns this cell: a blank shows as 0"""
    return N(0) if v[0] == 'blank' else v


# -- wildcards -------------------------------------------------------------
def has_wild(s):
    return any(ch in s for ch in '*?~')


def wild_regex(p):
    """? one character, * any run, ~? ~* ~~ the literal character."""
    out, i = [], 0
    while i < len(p):
        ch = p[i]
        if ch == '~' and i + 1 < len(p) and p[i + 1] in '*?~':
            out.append(re.escape(p[i + 1]))
            i += 2
            continue
        out.append('.' if ch == '?' else '.*' if ch == '*' else re.escape(ch))
        i += 1
    return re.compile(''.join(out), re.I | re.S)


def wild_match(p, s):
    return wild_regex(p).fullmatch(s) is not None


# -- MATCH -----------------------------------------------------------------
def in_domain(vec, mode):
    """mode 0: anything (error elements are never equal to a key).  mode 1 / -1: no blanks, strictly ascending
    / descending in Excel's order (which makes every typed block sorted and
    the blocks ordered numbers < text < logicals)."""
    if mode == 0:
        return True            # an error value among the keys equals nothing: it is skipped like an element of another type
    if any(v[0] == 'e' for v in vec):
        return False
    if any(v[0] == 'blank' for v in vec):
        return False
    ks = [skey(v) for v in vec]
    if mode > 0:
        return all(a < b for a, b in zip(ks, ks[1:]))
    return all(a > b for a, b in zip(ks, ks[1:]))


def match(key, vec, mode=1):
    """Linear-scan definition.  mode 0: first element equal to the key (same
    type; text ignoring case; a text key holding ? * ~ is a pattern).
    mode 1: last element <= key, mode -1: last element >= key, both among the
    elements of the key's own type (Excel ignores the other types)."""
    if key[0] == 'e':
        return {key}
    if not in_domain(vec, mode):
        return None
    if key[0] == 'blank':
        # a blank key acts as the number 0 (audited: MATCH(blank,{-1.1,..})=1,
        # exact mode #N/A); whether it also finds a blank element in exact
        # mode is left open
        out = match(N(0), vec, mode)
        if mode == 0:
            blanks = [i for i, v in enumerate(vec) if v[0] == 'blank']
            if blanks:
                out = out | {N(blanks[0] + 1), NA}
        return out
    if mode == 0:
        if key[0] == 't' and has_wild(key[1]):
            rx = wild_regex(key[1])
            hit = [i for i, v in enumerate(vec) if v[0] == 't' and rx.fullmatch(v[1])]
        else:
            k = skey(key)
            hit = [i for i, v in enumerate(vec) if v[0] in RANK and skey(v) == k]
        return {N(hit[0] + 1)} if hit else {NA}
    k = skey(key)
    same = [(i, skey(v)) for i, v in enumerate(vec) if v[0] == key[0]]
    if mode > 0:
        hit = [i for i, s in same if s <= k]
    else:
        hit = [i for i, s in same if s >= k]
    return {N(hit[-1] + 1)} if hit else {NA}


# -- INDEX -----------------------------------------------------------------
def index(tbl, i, j=None, is_ref=True):
    """INDEX(tbl, i[, j]) shown in one cell.  i, j are Python ints.
    is_ref: tbl is a referenced range whose first row is the formula's row
    (then a whole *column* is unambiguous: implicit intersection and the
    top-left of the spilled result agree); a whole row / whole table of a
    2-D reference is not judged."""
    r, c = len(tbl), len(tbl[0])
    if j is None:
        if r == 1:
            i, j = 1, i
        elif c == 1:
            j = 1
        elif is_ref:
            if i < 0:
                return {VALUE}
            return {REF} if i >= 1 else None     # audited: INDEX(B19:D20,2) = #REF!
        else:
            j = 0                                # whole row of an array constant
    out = set()
    if i < 0 or j < 0:
        out.add(VALUE)
    if i > r or j > c:
        out.add(REF)
    if out:
        return out
    if i >= 1 and j >= 1:
        return {value0(tbl[i - 1][j - 1])}
    if i == 0 and j >= 1:                        # whole column j
        return {value0(tbl[0][j - 1])}
    if j == 0 and i >= 1:                        # whole row i
        if c == 1 or not is_ref:
            return {value0(tbl[i - 1][0])}
        return None
    if (r == 1 and c == 1) or not is_ref:        # whole table
        return {value0(tbl[0][0])}
    return None


# -- LOOKUP family = INDEX(result, MATCH(key, keys, mode)) ---------------------
def _compose(m, pick, errs=()):
    """m: MATCH answers; pick(pos) -> value; errs: errors of the index
    argument, which win when the key is found and are accepted beside #N/A
    (or the key's own error) when it is not."""
    if m is None:
        return None
    out = set()
    for a in m:
        if a[0] == 'e':
            out.add(a)
            out.update(errs)
        elif errs:
            out.update(errs)
        else:
            out.add(value0(pick(int(a[1]))))
    return out


def flat(tbl):
    return [v for row in tbl for v in row]


def lookup(key, keys, results=None):
    """vector form: keys / results are 1 x n or n x 1 tables of equal size.
    array form (results None, keys 2-D): wider than tall -> search the first
    row, answer from the last row; else first column / last column."""
    r, c = len(keys), len(keys[0])
    if results is None and r > 1 and c > 1:
        if c > r:
            kv, rv = keys[0], keys[-1]
        else:
            kv, rv = [row[0] for row in keys], [row[-1] for row in keys]
    else:
        kv = flat(keys)
        rv = kv if results is None else flat(results)
        if len(rv) != len(kv):
            return None
    return _compose(match(key, kv, 1), lambda p: rv[p - 1])


def _xlookup(key, kv, pick, idx, n, approx):
    errs = set()
    if idx < 1:
        errs.add(VALUE)
    elif idx > n:
        errs.add(REF)
    return _compose(match(key, kv, 1 if approx else 0), pick, errs)


def vlookup(key, tbl, col, approx=True):
    return _xlookup(key, [row[0] for row in tbl], lambda p: tbl[p - 1][col - 1], col, len(tbl[0]), approx)


def hlookup(key, tbl, row, approx=True):
    return _xlookup(key, tbl[0], lambda p: tbl[row - 1][p - 1], row, len(tbl), approx)


# -- criteria --------------------------------------------------------------
OPS = ['>=', '<=', '<>', '>', '<', '=']       # longest first
_NUM = re.compile(r'[+-]?(\d+(\.\d*)?|\.\d+)')


def parse_criterion(c):
    """-> (op, operand value, is_pattern) or None (not judged)."""
    if c[0] in ('n', 'b'):
        return '=', c, False
    if c[0] == 'blank':
        return '=', N(0), False                 # an empty criterion cell counts as 0
    if c[0] != 't':
        return None
    s, op = c[1], '='
    for o in OPS:
        if s.startswith(o):
            op, s = o, s[len(o):]
            break
    if s == '':
        return (op, T(''), False) if op in ('=', '<>') else None
    if _NUM.fullmatch(s):
        return op, N(float(s)), False
    if s.upper() in ('TRUE', 'FALSE'):
        return op, B(s.upper() == 'TRUE'), False
    if has_wild(s):
        return (op, T(s), True) if op in ('=', '<>') else None
    return op, T(s), False


def satisfies(cell, op, operand, pattern):
    """True / False / None (None = open, both accepted: under <> an element of
    another type than the operand is counted by Excel but not by a strict
    reading of 'compared within their own type'; see also blank below)."""
    if operand == T(''):
        # "" and "=" select the empty cells, "<>" the non-empty ones
        return (cell[0] == 'blank') == (op == '=')
    if cell[0] == 'blank' and op not in ('=', '<>'):
        # an empty cell is not compared (Excel); a reading in which it adapts to
        # the operand's type (0, "", FALSE) as it does for operators is accepted too
        z = {'n': N(0), 't': T(''), 'b': B(False)}[operand[0]]
        return None if satisfies(z, op, operand, False) else False
    if cell[0] != operand[0]:
        return None if op == '<>' else False
    if pattern:
        eq = wild_match(operand[1], cell[1])
        return eq if op == '=' else not eq
    a, b = skey(cell)[1], skey(operand)[1]
    return {'=': a == b, '<>': a != b, '<': a < b, '>': a > b, '<=': a <= b, '>=': a >= b}[op]


def selections(rng, crit):
    """the acceptable index sets selected by the criterion: one, or for <> up
    to three readings of the elements that are not of the operand's type
    (none counted / only blanks, which adapt to the operand's type / all)."""
    p = parse_criterion(crit)
    if p is None or any(v[0] == 'e' for v in rng):
        return None
    s = [satisfies(v, *p) for v in rng]
    sure = [i for i, x in enumerate(s) if x is True]
    blanks = [i for i, x in enumerate(s) if x is True or (x is None and rng[i][0] == 'blank')]
    opened = [i for i, x in enumerate(s) if x is not False]
    out = []
    for sel in (sure, blanks, opened):
        if sel not in out:
            out.append(sel)
    return out


def _nums(vals, idx):
    return [vals[i][1] for i in idx if vals[i][0] == 'n']


def countif(rng, crit):
    sel = selections(rng, crit)
    return None if sel is None else {N(len(s)) for s in sel}


def sumif(rng, crit, sum_rng=None):
    sel = selections(rng, crit)
    vals = rng if sum_rng is None else sum_rng
    if sel is None or len(vals) != len(rng) or any(v[0] == 'e' for v in vals):
        return None
    return {N(sum(_nums(vals, s))) for s in sel}


def averageif(rng, crit, avg_rng=None):
    sel = selections(rng, crit)
    vals = rng if avg_rng is None else avg_rng
    if sel is None or len(vals) != len(rng) or any(v[0] == 'e' for v in vals):
        return None
    out = set()
    for s in sel:
        xs = _nums(vals, s)
        out.add(N(sum(xs) / len(xs)) if xs else DIV)
    return out


def accepted(got, exp, rel=1e-12):
    return got[0] != 'BAD' and any(close(got, e, rel) for e in exp)


# -- audit against Excel's cached values (DESIGN.md 3.2) -----------------------
CORPUS = '/repo/test/test_files/test.xlsx'
_FN = re.compile(r'=(MATCH|INDEX|LOOKUP|VLOOKUP|HLOOKUP|COUNTIF|SUMIF|AVERAGEIF)\((.*)\)')
_CELL = re.compile(r'\$?([A-Z]{1,3})\$?(\d+)')


def _split(s):
    out, cur, depth, q = [], '', 0, False
    for ch in s:
        if ch == '"':
            q = not q
        if not q and ch in '({':
            depth += 1
        if not q and ch in ')}':
            depth -= 1
        if ch == ',' and not q and depth == 0:
            out.append(cur)
            cur = ''
        else:
            cur += ch
    return out + [cur]


def _cv(x):
    if x is None:
        return BLANK
    if isinstance(x, bool):
        return B(x)
    if isinstance(x, (int, float)):
        return N(x)
    if isinstance(x, str):
        return ('e', x) if x in ERRS else T(x)
    raise ValueError(x)


def _scalar(tok):
    tok = tok.strip()
    if tok in ('TRUE', 'FALSE'):
        return B(tok == 'TRUE')
    if tok.startswith('"') and tok.endswith('"'):
        return T(tok[1:-1].replace('""', '"'))
    if _NUM.fullmatch(tok):
        return N(float(tok))
    raise ValueError(tok)


def _arg(tok, ws):
    """-> ('s', value) | ('a', table, is_ref)"""
    from openpyxl.utils import range_boundaries
    tok = tok.strip()
    if tok.startswith('{'):
        return 'a', [[_scalar(x) for x in _split(row)] for row in tok[1:-1].split(';')], False
    if re.fullmatch(_CELL.pattern + ':' + _CELL.pattern, tok):
        c1, r1, c2, r2 = range_boundaries(tok.replace('$', ''))
        return 'a', [[_cv(ws.cell(r, c).value) for c in range(c1, c2 + 1)] for r in range(r1, r2 + 1)], True
    if _CELL.fullmatch(tok):
        return 's', _cv(ws[tok.replace('$', '')].value)
    return 's', _scalar(tok)


def _int(v):
    if v[0] != 'n' or v[1] != int(v[1]):
        raise ValueError(v)
    return int(v[1])


def _mode(v):
    x = to_number(v)
    return 1 if x > 0 else -1 if x < 0 else 0


def corpus_eval(name, args):
    """reference answer set for one corpus formula, None when not judged"""
    k = [a[0] for a in args]
    if name == 'MATCH' and k[:2] == ['s', 'a'] and k[2:] in ([], ['s']) and 1 in (len(args[1][1]), len(args[1][1][0])):
        return match(args[0][1], flat(args[1][1]), _mode(args[2][1]) if len(args) > 2 else 1)
    if name == 'INDEX' and k[0] == 'a' and k[1:] in (['s'], ['s', 's']):
        return index(args[0][1], *[_int(a[1]) for a in args[1:]], is_ref=args[0][2])
    if name == 'LOOKUP' and k in (['s', 'a'], ['s', 'a', 'a']):
        return lookup(args[0][1], args[1][1], args[2][1] if len(args) > 2 else None)
    if name in ('VLOOKUP', 'HLOOKUP') and k in (['s', 'a', 's'], ['s', 'a', 's', 's']):
        approx = _mode(args[3][1]) != 0 if len(args) > 3 else True
        return (vlookup if name == 'VLOOKUP' else hlookup)(args[0][1], args[1][1], _int(args[2][1]), approx)
    if name in ('COUNTIF', 'SUMIF', 'AVERAGEIF') and k in (['a', 's'], ['a', 's', 'a']):
        fn = {'COUNTIF': countif, 'SUMIF': sumif, 'AVERAGEIF': averageif}[name]
        return fn(flat(args[0][1]), args[1][1], *([flat(args[2][1])] if len(args) > 2 else []))
    return None


def audit(path=CORPUS):
    """Evaluate every corpus formula the oracle covers and compare with the
    value Excel cached.  -> (judged, {function: n}, [disagreements])"""
    import openpyxl, collections
    wf = openpyxl.load_workbook(path)
    wv = openpyxl.load_workbook(path, data_only=True)
    n, bad = collections.Counter(), []
    for sheet in ('LOOKUP', 'MATH & TRIG', 'STATISTICAL'):
        ws, wsv = wf[sheet], wv[sheet]
        for row in ws.iter_rows():
            for c in row:
                m = isinstance(c.value, str) and _FN.fullmatch(c.value)
                if not m:
                    continue
                try:
                    exp = corpus_eval(m.group(1), [_arg(t, wsv) for t in _split(m.group(2))])
                except (ValueError, TypeError):
                    exp = None
                if exp is None:
                    n['not-judged'] += 1
                    continue
                n[m.group(1)] += 1
                got = _cv(wsv[c.coordinate].value)
                if not accepted(got, exp, 1e-9):
                    bad.append((sheet, c.coordinate, c.value, got, sorted(exp)))
    return sum(v for k, v in n.items() if k != 'not-judged'), dict(n), bad
