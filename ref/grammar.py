"""Reference Excel expression grammar: trees, printers, evaluator, recogniser.
Independent of the code under test.

tree := ('leaf', text, value) | ('bin', op, l, r) | ('neg', x) | ('pos', x) | ('pct', x)
      | ('call', NAME, [arg...]) | ('empty',) | ('arr', [[elem...]...])
value is a reference value (ref/values.py) or None for references.
"""
import re
from . import scalar as S
from .values import *

BIN = ['=', '<', '>', '<=', '>=', '<>', '&', '+', '-', '*', '/', '^']
RANK = {**{o: 1 for o in ['=', '<', '>', '<=', '>=', '<>']}, '&': 2, '+': 3, '-': 3, '*': 4, '/': 4, '^': 5}
UN = ['neg', 'pos', 'pct']


def leaf(text, value=None):
    return ('leaf', text, value)


# ---------------------------------------------------------------- printers
def full(t):
    """The library's concrete syntax for the fully parenthesised rendering."""
    k = t[0]
    if k == 'leaf':
        return t[1]
    if k == 'bin':
        if t[1] in (' ', ':', ','):
            return '(%s)' % ('%s ' % t[1].strip()).join((full(t[2]), full(t[3])))
        r = full(t[3])
        if r[:1] in ('-', '+'):
            r = '(%s)' % r          # a signed right operand is parenthesised so the text reads back as the same tree
        return '(%s %s %s)' % (full(t[2]), t[1], r)
    if k == 'union':
        return '(%s)' % ', '.join(full(a) for a in t[1])
    if k in ('neg', 'pos'):
        x = full(t[1])
        if x[:1] in ('-', '+'):
            x = '(%s)' % x
        return ('-' if k == 'neg' else '+') + x
    if k == 'pct':
        x = full(t[1])
        if x.endswith('%'):
            x = '(%s)' % x
        return x + '%'
    if k == 'call':
        return '%s(%s)' % (t[1].upper(), ', '.join(full(a) for a in t[2]))
    if k == 'empty':
        return ''
    if k == 'arr':
        return 'ARRAY(%s)' % ', '.join('ARRAY(%s)' % ', '.join(full(e) for e in row) for row in t[1])
    raise ValueError(t)


def prec(t):
    k = t[0]
    if k == 'bin':
        return RANK[t[1]]
    return {'neg': 7, 'pos': 7, 'pct': 6}.get(k, 9)


def spell(t, style='mini', sp='', wrap=None, _path=()):
    """style 'mini': only the parentheses the grammar needs (sign runs appear as
    Excel would write them: a+-b, --x); 'safe': like mini but a unary operand
    that would start a sign run is parenthesised; 'paren': every operator node
    parenthesised.  sp: whitespace put around binary operators and separators.
    wrap: dict path->n: that subtree gets n redundant parentheses."""
    k = t[0]
    if k == 'leaf':
        s = t[1]
    elif k == 'bin':
        p = RANK[t[1]]
        l = spell(t[2], style, sp, wrap, _path + (0,))
        r = spell(t[3], style, sp, wrap, _path + (1,))
        if style != 'paren':
            if prec(t[2]) < p:
                l = '(%s)' % l
            if prec(t[3]) <= p or (style == 'safe' and t[3][0] in ('neg', 'pos')):
                r = '(%s)' % r
        s = l + sp + t[1] + sp + r
        if style == 'paren':
            s = '(%s)' % s
    elif k in ('neg', 'pos'):
        x = spell(t[1], style, sp, wrap, _path + (0,))
        if style != 'paren':
            if t[1][0] in ('bin', 'pct') or (style == 'safe' and t[1][0] in ('neg', 'pos')):
                x = '(%s)' % x
        s = ('-' if k == 'neg' else '+') + x
        if style == 'paren':
            s = '(%s)' % s
    elif k == 'pct':
        x = spell(t[1], style, sp, wrap, _path + (0,))
        if style != 'paren' and t[1][0] in ('bin', 'pct', 'neg', 'pos'):
            # (-2)% and -2% are different trees: unary binds tighter than %, so
            # pct(neg(2)) is what "-2%" already means; parenthesise anyway: always valid
            x = '(%s)' % x
        s = x + '%'
        if style == 'paren':
            s = '(%s)' % s
    elif k == 'call':
        sep = ',' + sp
        s = '%s(%s)' % (t[1], sep.join(spell(a, style, sp, wrap, _path + (i,)) for i, a in enumerate(t[2])))
    elif k == 'empty':
        s = ''
    elif k == 'arr':
        s = '{%s}' % (';' + sp).join((',' + sp).join(spell(e, style, sp, wrap, _path + (i, j)) for j, e in enumerate(row))
                                      for i, row in enumerate(t[1]))
    else:
        raise ValueError(t)
    if wrap and _path in wrap:
        s = '(' * wrap[_path] + s + ')' * wrap[_path]
    return s


def paths(t, _p=()):
    """paths of all subtrees that may be wrapped in redundant parentheses."""
    k = t[0]
    if k in ('empty',):
        return
    if k != 'arr':
        yield _p
    if k == 'bin':
        yield from paths(t[2], _p + (0,))
        yield from paths(t[3], _p + (1,))
    elif k in ('neg', 'pos', 'pct'):
        yield from paths(t[1], _p + (0,))
    elif k == 'call':
        for i, a in enumerate(t[2]):
            yield from paths(a, _p + (i,))
    # array elements cannot be parenthesised in Excel


def has_sign_run(text):
    """True when the text holds two sign characters separated only by blanks."""
    return re.search(r'[+\-]\s*[+\-]', text) is not None


# ---------------------------------------------- sound sign normalisation
def normalise(t):
    """Value-preserving rewrites of sign runs (DESIGN.md C01 Compare): applied to
    both the reference tree and nothing else.  bin(+,a,neg b)->bin(-,a,b),
    bin(-,a,neg b)->bin(+,a,b), bin(+-,a,pos b)->bin(+-,a,b), pos(neg x)->neg x,
    neg(pos x)->neg x, pos(pos x)->pos x, neg(neg(neg x))->neg x."""
    k = t[0]
    if k == 'bin':
        l, r = normalise(t[2]), normalise(t[3])
        op = t[1]
        while op in ('+', '-') and r[0] in ('neg', 'pos'):
            if r[0] == 'neg':
                op = '-' if op == '+' else '+'
            r = r[1]
        return ('bin', op, l, r)
    if k in ('neg', 'pos'):
        x = normalise(t[1])
        if k == 'pos' and x[0] == 'neg':
            return x
        if k == 'neg' and x[0] == 'pos':
            return ('neg', x[1])
        if k == 'pos' and x[0] == 'pos':
            return x
        if k == 'neg' and x[0] == 'neg' and x[1][0] == 'neg':
            return x[1]
        return (k, x)
    if k == 'pct':
        return ('pct', normalise(t[1]))
    if k == 'call':
        return ('call', t[1], [normalise(a) for a in t[2]])
    return t


# ---------------------------------------------------------------- evaluator
def evaluate(t, env=None):
    """Set of acceptable values, or None when the reference does not define it."""
    k = t[0]
    if k == 'leaf':
        v = t[2]
        if v is None:
            v = (env or {}).get(t[1])
        return None if v is None else {v}
    if k == 'bin':
        a, b = evaluate(t[2], env), evaluate(t[3], env)
        if a is None or b is None or len(a) != 1 or len(b) != 1:
            return None
        (a,), (b,) = a, b
        if a == S.REALROOT or b == S.REALROOT:
            return None
        return S.binary(t[1], a, b)
    if k in ('neg', 'pos', 'pct'):
        a = evaluate(t[1], env)
        if a is None or len(a) != 1:
            return None
        (a,) = a
        if a == S.REALROOT:
            return None
        return S.unary({'neg': 'u-', 'pos': 'u+', 'pct': '%'}[k], a)
    return None


# ---------------------------------------------------------------- generators
def trees(n, leaves, li=0, ops=BIN, unary=UN):
    """all trees with exactly n operator nodes; leaves consumed left to right."""
    if n == 0:
        yield leaves[li % len(leaves)], li + 1
        return
    for u in unary:
        for t, l2 in trees(n - 1, leaves, li, ops, unary):
            yield (u, t), l2
    for op in ops:
        for k in range(n):
            for lt, l2 in trees(k, leaves, li, ops, unary):
                for rt, l3 in trees(n - 1 - k, leaves, l2, ops, unary):
                    yield ('bin', op, lt, rt), l3


# ---------------------------------------------------------------- recogniser
OPERANDS = {'1', '"s"', 'A1', 'TRUE', '#N/A'}
CONSTS = {'1', '"s"', 'TRUE', '#N/A'}


class Reject(Exception):
    pass


class Unspec(Exception):
    pass


def _isref(t):
    return (t[0] == 'leaf' and t[2] is None) or (t[0] == 'bin' and t[1] == ' ') or t[0] == 'union'


def recognise(toks, binops=('+', '-', '*'), operands=None, consts=None, values=None):
    """Reference accept/reject for token sequences over the C18 alphabet.
    Returns ('VALID', tree) | ('UNSPEC', None) | ('INVALID', None).  Top-level
    union A1,A1 is accepted for references only (property C06's operator)."""
    pos = [0]
    unspec = [False]

    def peek():
        return toks[pos[0]] if pos[0] < len(toks) else None

    def eat(t=None):
        x = peek()
        if x is None or (t is not None and x != t):
            raise Reject()
        pos[0] += 1
        return x

    LV = {'1': N(1), '"s"': T('s'), 'TRUE': B(True), '#N/A': NA, 'A1': None}
    if values:
        LV = values
    OPERANDS_, CONSTS_ = (operands or OPERANDS), (consts if consts is not None else CONSTS)

    def operand_leaf(x):
        return leaf(x, LV[x])

    def prefix():
        t = peek()
        if t in ('+', '-'):
            eat()
            return ('neg' if t == '-' else 'pos', prefix())
        p = primary()
        while peek() == ' ':          # intersection: binds tightest, references only
            eat()
            q = primary()
            if not (_isref(p) and _isref(q)):
                raise Reject()
            p = ('bin', ' ', p, q)
        return p

    def expr(minp=0):
        lhs = prefix()
        n = 0
        while peek() == '%':
            eat()
            lhs = ('pct', lhs)
            n += 1
        if n > 1:
            unspec[0] = True
        while True:
            if peek() in binops and RANK[peek()] >= minp:
                op = eat()
                rhs = expr(RANK[op] + 1)
                lhs = ('bin', op, lhs, rhs)
                continue
            break
        return lhs

    def primary():
        t = peek()
        if t in OPERANDS_:
            eat()
            return operand_leaf(t)
        if t == '(':
            eat()
            x = expr()
            if peek() == ',':  # parenthesised union of references
                items = [x]
                while peek() == ',':
                    eat()
                    items.append(expr())
                if not all(_isref(i) for i in items):
                    raise Reject()
                x = ('union', items)
            eat(')')
            return x
        if t == 'F(':
            eat()
            args = []
            if peek() == ')':
                eat()
                return ('call', 'F', args)
            while True:
                if peek() in (',', ')'):
                    args.append(('empty',))
                else:
                    args.append(expr())
                if peek() == ',':
                    eat()
                    continue
                break
            eat(')')
            return ('call', 'F', args)
        if t == '{':
            eat()
            rows = []
            while True:
                row = []
                while True:
                    if peek() in (',', ';', '}'):
                        unspec[0] = True     # empty element: Excel rejects, property silent
                        e = ('empty',)
                    else:
                        e = expr()
                    plain = e[0] == 'empty' or (e[0] == 'leaf' and e[1] in CONSTS_)
                    signed = e[0] in ('neg', 'pos') and e[1][0] == 'leaf' and e[1][2] is not None and e[1][2][0] == 'n'
                    if not (plain or signed):
                        # reference / expression / percent inside an array constant: Excel rejects it,
                        # the property does not mention it (DESIGN.md C18 Excluded): totality only
                        unspec[0] = True
                    row.append(e)
                    if peek() == ',':
                        eat()
                        continue
                    break
                rows.append(row)
                if peek() == ';':
                    eat()
                    continue
                break
            eat('}')
            if len({len(r) for r in rows}) != 1:
                raise Reject()
            return ('arr', rows)
        raise Reject()

    try:
        t = expr()
        if peek() == ',':      # top-level union: references only
            items = [t]
            while peek() == ',':
                eat()
                items.append(expr())
            if not all(_isref(i) for i in items):
                raise Reject()
            t = ('union', items)
            unspec[0] = True
        if pos[0] != len(toks):
            raise Reject()
        return ('UNSPEC', None) if unspec[0] else ('VALID', t)
    except Unspec:
        return ('UNSPEC', None)
    except Reject:
        return ('INVALID', None)
