"""Reference for ROMAN(number, form) and ARABIC(text) (independent of /repo).

Two independently written generators are kept: `roman_digits` works decimal
digit by decimal digit and shortens a 4/9 digit step by step (the algorithm
spreadsheet programs document for Excel's "more concise" forms), `roman_table`
is the greedy subtraction over the literal table of pairs each form allows.
`accepted(n, form)` is the set of both answers; `self_audit` shows where (if
anywhere) they differ."""
VAL = {'M': 1000, 'D': 500, 'C': 100, 'L': 50, 'X': 10, 'V': 5, 'I': 1}
_CH, _V = 'MDCLXVI', (1000, 500, 100, 50, 10, 5, 1)

# pairs every form allows, then the pairs each further form adds
_T0 = [('M', 1000), ('CM', 900), ('D', 500), ('CD', 400), ('C', 100), ('XC', 90), ('L', 50), ('XL', 40),
       ('X', 10), ('IX', 9), ('V', 5), ('IV', 4), ('I', 1)]
_ADD = {1: [('LM', 950), ('LD', 450), ('VC', 95), ('VL', 45)],
        2: [('XM', 990), ('XD', 490), ('IC', 99), ('IL', 49)],
        3: [('VM', 995), ('VD', 495)],
        4: [('IM', 999), ('ID', 499)]}


def roman_table(n, form=0):
    t = list(_T0)
    for f in range(1, form + 1):
        t += _ADD[f]
    t.sort(key=lambda p: -p[1])
    out = ''
    for s, v in t:
        while n >= v:
            out += s
            n -= v
    return out


def roman_digits(n, form=0):
    out, last = '', len(_V) - 1
    for i in range(0, len(_V), 2):               # M, C, X, I
        dig = n // _V[i]
        if dig % 5 == 4:                         # 4 or 9 of this decimal place
            big = i - 1 if dig == 4 else i - 2   # the letter subtracted from
            j, steps = i, 0
            while steps < form and j < last:
                steps += 1
                if _V[big] - _V[j + 1] <= n:     # a smaller letter can carry more of n
                    j += 1
                else:
                    steps = form
            out += _CH[j] + _CH[big]
            n = n + _V[j] - _V[big]
        else:
            if dig > 4:
                out += _CH[i - 1]
            out += _CH[i] * (dig % 5)
            n %= _V[i]
    return out


def accepted(n, form=0):
    return {roman_table(n, form), roman_digits(n, form)}


def arabic(text):
    """value of a well-formed numeral (a letter smaller than its right
    neighbour is subtracted); None for anything else than MDCLXVI letters."""
    t = text.upper()
    if any(c not in VAL for c in t):
        return None
    v = [VAL[c] for c in t]
    return sum(-x if i + 1 < len(v) and x < v[i + 1] else x for i, x in enumerate(v))


def self_audit():
    doc = {499: ['CDXCIX', 'LDVLIV', 'XDIX', 'VDIV', 'ID'],       # Microsoft's documented examples
           999: ['CMXCIX', 'LMVLIV', 'XMIX', 'VMIV', 'IM']}       # Excel's cached values in test.xlsx
    for n, forms in doc.items():
        for f, s in enumerate(forms):
            assert accepted(n, f) == {s}, (n, f, accepted(n, f))
    assert roman_table(0) == '' and roman_table(3999) == 'MMMCMXCIX' and roman_table(1994) == 'MCMXCIV'
    assert arabic('IL') == 49 and arabic('mcmxciv') == 1994 and arabic('') == 0 and arabic('Vh') is None
    differ = []
    for f in range(5):
        for n in range(4000):
            a = accepted(n, f)
            assert all(arabic(s) == n for s in a), (n, f, a)
            if len(a) > 1:
                differ.append((n, f))
    for n in range(4000):                        # forms never lengthen the numeral
        ls = [len(roman_table(n, f)) for f in range(5)]
        assert ls == sorted(ls, reverse=True), n
    return differ
