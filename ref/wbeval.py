"""Reference workbook model and lazy evaluator (independent of the code under test).

Spec (JSON-serialisable):
  {'cells':  {"book|sheet|A1": content},
   'arrays': {"book|sheet|C1:C2": node},          # array formulas (spill ranges)
   'names':  {"book|NAME": node}}
content := node | ['const', value]     value := ref value as list: ['n',1.0] ['t','x'] ['b',true] ['e','#N/A']
node := ['num', x] | ['txt', s] | ['bool', b] | ['err', code]
      | ['cell', book, sheet, 'B2'] | ['rng', book, sheet, 'B1:B3'] | ['col', book, sheet, 'B']
      | ['name', book, 'RATE'] | ['op', sym, l, r] | ['neg', x] | ['fn', NAME, [args]]
Vocabulary of functions: SUM MAX MIN COUNT IF IFERROR ISERROR ISBLANK NOW RAND (symbolic).
"""
import re
from . import scalar as S
from .values import *

CIRC = ('e', '#CIRC!')


def key(book, sheet, coord):
    return '%s|%s|%s' % (book, sheet, coord)


def colnum(s):
    n = 0
    for ch in s:
        n = n * 26 + ord(ch) - 64
    return n


def colname(n):
    s = ''
    while n:
        n, r = divmod(n - 1, 26)
        s = chr(65 + r) + s
    return s


def parse_coord(c):
    m = re.fullmatch(r'([A-Z]+)(\d+)', c)
    return colnum(m.group(1)), int(m.group(2))


def parse_rect(r):
    a, _, b = r.partition(':')
    c1, r1 = parse_coord(a)
    c2, r2 = parse_coord(b or a)
    return c1, r1, c2, r2


def coord(c, r):
    return '%s%d' % (colname(c), r)


def val(v):
    return tuple(v) if isinstance(v, list) else v


# ------------------------------------------------------------------ printer
def q(book, sheet, home):
    """qualification of a reference as seen from home=(book, sheet)."""
    if book != home[0]:
        return "'[%s]%s'!" % (book, sheet.replace("'", "''"))
    if sheet != home[1]:
        plain = re.fullmatch(r'[A-Za-z_]\w*', sheet) and not re.fullmatch(r'(?i)[A-Z]{1,3}\d+|TRUE|FALSE|R\d*C\d*', sheet)
        return "%s!" % sheet if plain else "'%s'!" % sheet.replace("'", "''")
    return ''


def text(n, home, top=True):
    k = n[0]
    if k == 'num':
        s = literal(N(n[1]))
        return '(%s)' % s if s.startswith('-') and not top else s
    if k == 'txt':
        return literal(T(n[1]))
    if k == 'bool':
        return 'TRUE' if n[1] else 'FALSE'
    if k == 'err':
        return n[1]
    if k == 'cell':
        return q(n[1], n[2], home) + n[3]
    if k == 'rng':
        return q(n[1], n[2], home) + n[3]
    if k == 'col':
        return q(n[1], n[2], home) + '%s:%s' % (n[3], n[3])
    if k == 'union':
        return '(%s)' % ','.join(text(a, home, False) for a in n[1])
    if k == 'isect':
        return '%s %s' % (text(n[1], home, False), text(n[2], home, False))
    if k == 'colon':
        return '%s:%s' % (text(n[1], home, False), text(n[2], home, False))
    if k == 'name':
        return n[2] if home[0] == n[1] else "'[%s]'!%s" % (n[1], n[2])
    if k == 'op':
        return '(%s%s%s)' % (text(n[2], home, False), n[1], text(n[3], home, False))
    if k == 'neg':
        return '-%s' % text(n[1], home, False)
    if k == 'fn':
        return '%s(%s)' % (n[1], ','.join(text(a, home, False) for a in n[2]))
    raise ValueError(n)


def formula(n, home):
    return '=' + text(n, home)


# ---------------------------------------------------------------- evaluator
class Env:
    """overrides: {"book|sheet|A1": value} treated as constants."""

    def __init__(self, spec, overrides=None, clock=None, draws=None, lazy_cycles=True):
        self.spec = spec
        self.cells = dict(spec.get('cells', {}))
        self.arrays = spec.get('arrays', {})
        self.names = spec.get('names', {})
        self.over = {(('N', k[5:]) if isinstance(k, str) and k.startswith('NAME:') else k): val(v) for k, v in (overrides or {}).items()}
        self.memo = {}
        self.stack = []
        self.circ = set()
        self.spill = {}        # cell key -> (array key, i, j)
        for ak in self.arrays:
            b, s, r = ak.split('|')
            c1, r1, c2, r2 = parse_rect(r)
            for i in range(r1, r2 + 1):
                for j in range(c1, c2 + 1):
                    self.spill[key(b, s, coord(j, i))] = (ak, i - r1, j - c1)
        self.clock = clock
        self.draws = draws

    # -- cells
    def populated(self, k):
        return k in self.over or k in self.cells or k in self.spill

    def cell(self, k):
        """value of a cell: ref value or BLANK."""
        if k in self.over:
            return self.over[k]
        if k in self.memo:
            return self.memo[k]
        if k in self.stack:
            # re-entered while being evaluated: unavoidable cycle through the cells on the stack segment
            seg = self.stack[self.stack.index(k):]
            self.circ.update(seg)
            raise Cycle(k)
        self.stack.append(k)
        try:
            if k in self.spill:
                ak, i, j = self.spill[k]
                arr = self.array(ak)
                v = arr[i][j]
            elif k in self.cells:
                c = self.cells[k]
                if c[0] == 'const':
                    v = val(c[1])
                else:
                    v = self.scalar(self.ev(c, k), k)
                    if v == BLANK:
                        v = N(0)
            else:
                v = BLANK
        except Cycle as cy:
            if cy.k != k and k in self.circ:
                raise
            v = CIRC
        finally:
            self.stack.pop()
        if k in self.circ:
            v = CIRC
        self.memo[k] = v
        return v

    def array(self, ak):
        if ('A', ak) in self.memo:
            return self.memo[('A', ak)]
        b, s, r = ak.split('|')
        c1, r1, c2, r2 = parse_rect(r)
        res = self.ev(self.arrays[ak], key(b, s, coord(c1, r1)))
        if isinstance(res, Rng):
            res = res.grid(self)
        out = fit(res, r2 - r1 + 1, c2 - c1 + 1)
        self.memo[('A', ak)] = out
        return out

    def scalar(self, res, host):
        """formula result stored in a single cell."""
        if isinstance(res, Rng):
            res = self.implicit(res, host)
        if isinstance(res, list):
            return res[0][0]
        return res

    def implicit(self, rng, host):
        g = rng.grid(self)
        if len(g) == 1 and len(g[0]) == 1:
            return g[0][0]
        b, s, c = host.split('|')
        hc, hr = parse_coord(c)
        c1, r1, c2, r2 = rng.rect
        if c1 == c2 and r1 <= hr <= r2:
            return g[hr - r1][0]
        if r1 == r2 and c1 <= hc <= c2:
            return g[0][hc - c1]
        return g    # array result: top-left stored

    # -- expressions
    def ev(self, n, host):
        k = n[0]
        if k == 'num':
            return N(n[1])
        if k == 'txt':
            return T(n[1])
        if k == 'bool':
            return B(n[1])
        if k == 'err':
            return ('e', n[1])
        if k in ('cell', 'rng', 'col') and self.spec.get('strict_sheets') and [n[1], n[2]] not in [list(x) for x in self.spec.get('sheets', [])]:
            return REF          # a sheet that the (declared) workbook does not have
        if k == 'cell':
            c, r = parse_coord(n[3])
            return Rng(n[1], n[2], (c, r, c, r))
        if k == 'rng':
            return Rng(n[1], n[2], parse_rect(n[3]))
        if k == 'col':
            return Rng(n[1], n[2], self.col_rect(n[1], n[2], n[3]), whole=True)
        if k == 'union':
            return Multi([self.ev(a, host) for a in n[1]])
        if k == 'isect':
            a, b = self.ev(n[1], host), self.ev(n[2], host)
            if (a.book, a.sheet) != (b.book, b.sheet):
                return NULL
            c1, r1, c2, r2 = max(a.rect[0], b.rect[0]), max(a.rect[1], b.rect[1]), min(a.rect[2], b.rect[2]), min(a.rect[3], b.rect[3])
            if c1 > c2 or r1 > r2:
                return NULL
            return Rng(a.book, a.sheet, (c1, r1, c2, r2))
        if k == 'colon':          # the range operator: bounding rectangle of its two (single-area, same-sheet) operands
            a, b = self.ev(n[1], host), self.ev(n[2], host)
            if not isinstance(a, Rng) or not isinstance(b, Rng) or (a.book, a.sheet) != (b.book, b.sheet):
                raise Ambiguous('range operator over something else than two areas of one sheet')
            return Rng(a.book, a.sheet, (min(a.rect[0], b.rect[0]), min(a.rect[1], b.rect[1]), max(a.rect[2], b.rect[2]), max(a.rect[3], b.rect[3])))
        if k == 'name':
            nk = '%s|%s' % (n[1], n[2])
            if ('N', nk) in self.over:
                return self.over[('N', nk)]       # an overridden (computed) name is a constant
            if nk not in self.names:
                return REF
            return self.ev(self.names[nk], host)
        if k == 'neg':
            return self.lift1('u-', self.ev(n[1], host), host)
        if k == 'op':
            return self.lift2(n[1], self.ev(n[2], host), self.ev(n[3], host), host)
        if k == 'fn':
            return self.call(n[1], n[2], host)
        raise ValueError(n)

    def col_rect(self, book, sheet, col):
        c = colnum(col)
        rows = [parse_coord(k.split('|')[2])[1] for k in list(self.cells) + list(self.spill) + [x for x in self.over if isinstance(x, str)]
                if k.split('|')[:2] == [book, sheet]]
        return (c, 1, c, max(rows) if rows else 1)

    def grid_or_scalar(self, x, host):
        if isinstance(x, Rng):
            g = x.grid(self)
            if len(g) == 1 and len(g[0]) == 1:
                return g[0][0]
            if x.whole:
                return self.implicit(x, host)
            return g
        return x

    def lift1(self, op, a, host):
        a = self.grid_or_scalar(a, host)
        if isinstance(a, list):
            return [[one(S.unary(op, v)) for v in row] for row in a]
        return one(S.unary(op, a))

    def lift2(self, op, a, b, host):
        a, b = self.grid_or_scalar(a, host), self.grid_or_scalar(b, host)
        if isinstance(a, list) or isinstance(b, list):
            rows = max(len(x) for x in (a, b) if isinstance(x, list))
            cols = max(len(x[0]) for x in (a, b) if isinstance(x, list))

            def at(x, i, j):
                if not isinstance(x, list):
                    return x
                ii = 0 if len(x) == 1 else i
                jj = 0 if len(x[0]) == 1 else j
                if ii >= len(x) or jj >= len(x[0]):
                    return NA
                return x[ii][jj]
            return [[one(S.binary(op, at(a, i, j), at(b, i, j))) for j in range(cols)] for i in range(rows)]
        return one(S.binary(op, a, b))

    # -- functions
    def call(self, name, args, host):
        if name == 'IF':
            c = self.argscalar(args[0], host)
            t = truth(c)
            if isinstance(t, tuple):
                return t
            if t:
                return self.ev(args[1], host) if len(args) > 1 else B(True)
            return self.ev(args[2], host) if len(args) > 2 else B(False)
        if name == 'IFERROR':
            try:
                x = self.argvalue(args[0], host)
            except Cycle:
                raise
            if not isinstance(x, list) and x[0] == 'e':
                return self.ev(args[1], host)
            return x
        if name == 'ISERROR':
            x = self.argvalue(args[0], host)
            return B(not isinstance(x, list) and x[0] == 'e')
        if name == 'ISBLANK':
            x = self.argvalue(args[0], host)
            return B(x == BLANK)
        if name in ('SUM', 'MAX', 'MIN', 'COUNT'):
            nums = []
            items = []
            for a in args:
                x = self.ev(a, host)
                items.extend(x.areas if isinstance(x, Multi) else [x])
            for x in items:
                if isinstance(x, Rng) or isinstance(x, list):
                    g = x.grid(self) if isinstance(x, Rng) else x
                    for row in g:
                        for v in row:
                            if v[0] == 'e':
                                if name != 'COUNT':
                                    return v
                            elif v[0] == 'n':
                                nums.append(v[1])
                            elif v[0] == 't' and to_number(v) is not None:
                                # numeric text inside a referenced range: skipped like other text (Excel) or counted as a
                                # number (the library)?  The statements do not fix it (DESIGN 3.1): no verdict for this workbook
                                raise Ambiguous('numeric text inside a referenced range under %s' % name)
                else:
                    if x[0] == 'e':
                        if name != 'COUNT':
                            return x
                        continue
                    y = to_number(x)
                    if y is None:
                        if name != 'COUNT':
                            return VALUE
                        continue
                    nums.append(y)
            if name == 'SUM':
                return fin(sum(nums))
            if name == 'COUNT':
                return N(len(nums))
            if not nums:
                return N(0)
            return N(max(nums) if name == 'MAX' else min(nums))
        if name == 'NOW':
            return N(self.clock)
        if name == 'RAND':
            return N(self.draws.pop(0))
        raise ValueError(name)

    def argvalue(self, a, host):
        x = self.ev(a, host)
        if isinstance(x, Rng):
            return self.grid_or_scalar(x, host)
        return x

    def argscalar(self, a, host):
        x = self.argvalue(a, host)
        if isinstance(x, list):
            return x[0][0]
        return x


class Multi:
    """a multi-area reference (union): each cell counts once per covering area."""

    def __init__(self, areas):
        self.areas = areas


class Cycle(Exception):
    def __init__(self, k):
        self.k = k


class Rng:
    def __init__(self, book, sheet, rect, whole=False):
        self.book, self.sheet, self.rect, self.whole = book, sheet, rect, whole

    def grid(self, env):
        c1, r1, c2, r2 = self.rect
        return [[env.cell(key(self.book, self.sheet, coord(c, r))) for c in range(c1, c2 + 1)] for r in range(r1, r2 + 1)]

    def keys(self):
        c1, r1, c2, r2 = self.rect
        return [key(self.book, self.sheet, coord(c, r)) for r in range(r1, r2 + 1) for c in range(c1, c2 + 1)]


def one(s):
    """single answer of a reference rule (sets with several acceptable answers are not used in workbook specs)."""
    s = [x for x in s if x != S.REALROOT]
    if len(s) != 1:
        raise Ambiguous(s)
    return s[0]


class Ambiguous(Exception):
    pass


def truth(c):
    if c[0] == 'e':
        return c
    if c[0] == 'b':
        return c[1]
    if c[0] == 'n':
        return c[1] != 0
    if c[0] == 'blank':
        return False
    if c[0] == 't':
        if c[1].upper() == 'TRUE':
            return True
        if c[1].upper() == 'FALSE':
            return False
        return VALUE
    raise ValueError(c)


def fit(res, rows, cols):
    """fit a formula result into a rows x cols destination (C05 rule)."""
    if isinstance(res, Rng):
        raise ValueError('resolve ranges before fitting')
    if not isinstance(res, list):
        return [[res] * cols for _ in range(rows)]
    rr, rc = len(res), len(res[0])
    out = []
    for i in range(rows):
        row = []
        for j in range(cols):
            ii = 0 if rr == 1 else i
            jj = 0 if rc == 1 else j
            row.append(res[ii][jj] if ii < rr and jj < rc else NA)
        out.append(row)
    return out


def solve(spec, overrides=None, **kw):
    """-> {cell key: value} for every populated cell (constants, formulas, spill cells)."""
    env = Env(spec, overrides, **kw)
    out = {}
    keys = list(env.cells) + list(env.spill) + [k for k in env.over if isinstance(k, str)]
    for k in keys:
        try:
            out[k] = env.cell(k)
        except Cycle:
            out[k] = CIRC
    for k in env.circ:
        out[k] = CIRC
    return out, env


def rename_sheets(spec, mapping):
    """structural rename of sheets: mapping {(book, old): new}."""
    def rk(k):
        parts = k.split('|')
        if len(parts) == 3 and (parts[0], parts[1]) in mapping:
            parts[1] = mapping[(parts[0], parts[1])]
        return '|'.join(parts)

    def rn(n):
        if isinstance(n, list):
            if n and n[0] in ('cell', 'rng', 'col') and (n[1], n[2]) in mapping:
                return [n[0], n[1], mapping[(n[1], n[2])]] + [rn(x) for x in n[3:]]
            return [rn(x) for x in n]
        return n
    out = {'cells': {rk(k): rn(v) for k, v in spec.get('cells', {}).items()},
           'arrays': {rk(k): rn(v) for k, v in spec.get('arrays', {}).items()},
           'names': {k: rn(v) for k, v in spec.get('names', {}).items()},
           'sheets': [[b, mapping.get((b, s), s)] for b, s in spec.get('sheets', [])]}
    return out
