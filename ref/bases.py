"""Reference for Excel's DEC2BIN/OCT/HEX, BIN/OCT/HEX2DEC and the six cross
conversions: 10-digit two's-complement in base 2, 8, 16 (independent of /repo).

Values are Python ints, digit strings are upper case, errors are the strings
'#NUM!' / '#VALUE!'."""
NUM, VALUE = '#NUM!', '#VALUE!'
BASE = {'BIN': 2, 'OCT': 8, 'HEX': 16}
DIGITS = '0123456789ABCDEF'
WIDTH = 10


def bounds(base):
    """(lo, hi) inclusive decimal domain of a 10-digit two's-complement number."""
    half = base ** WIDTH // 2
    return -half, half - 1


def dec2x(n, base, places=None):
    """n: int (already truncated towards zero); places: None or int."""
    lo, hi = bounds(base)
    if not lo <= n <= hi:
        return NUM
    if places is not None and not 1 <= places <= WIDTH:
        return NUM
    neg = n < 0
    if neg:                         # ten digits; a valid places argument is ignored
        n += base ** WIDTH
    s = ''
    while True:
        n, r = divmod(n, base)
        s = DIGITS[r] + s
        if not n:
            break
    if places is None or neg:
        return s
    if len(s) > places:
        return NUM
    return '0' * (places - len(s)) + s


def x2dec(text, base):
    """text: digit string as typed (any case)."""
    if not 1 <= len(text) <= WIDTH:
        return NUM
    n = 0
    for ch in text.upper():
        v = DIGITS.find(ch)
        if not 0 <= v < base:
            return NUM
        n = n * base + v
    if n >= base ** WIDTH // 2:
        n -= base ** WIDTH
    return n


def x2y(text, src, dst, places=None):
    n = x2dec(text, src)
    return n if n == NUM else dec2x(n, dst, places)


def pattern(n, base):
    """the full 10-digit spelling of n (n inside the domain)."""
    return dec2x(n, base, None if n < 0 else WIDTH)


def self_audit():
    # Excel's cached values in test.xlsx (sheet ENGINEERING) and Microsoft's documented examples
    assert dec2x(511, 2) == '111111111' and dec2x(-512, 2) == '1000000000' and dec2x(512, 2) == NUM and dec2x(-513, 2) == NUM
    assert dec2x(100, 2, 1) == NUM and dec2x(0, 2, 3) == '000' and dec2x(0, 16, 1) == '0' and dec2x(0, 8, 0) == NUM
    assert dec2x(549755813887, 16) == '7FFFFFFFFF' and dec2x(-549755813888, 16) == '8000000000' and dec2x(549755813888, 16) == NUM
    assert dec2x(536870911, 8) == '3777777777' and dec2x(-536870912, 8) == '4000000000' and dec2x(-536870913, 8) == NUM
    assert dec2x(-1, 2, 3) == '1111111111' and dec2x(-1, 16, 11) == NUM and dec2x(-1, 8, 0) == NUM
    assert dec2x(9, 2, 4) == '1001' and dec2x(-100, 2) == '1110011100' and dec2x(100, 16, 4) == '0064' and dec2x(-54, 16) == 'FFFFFFFFCA'
    assert dec2x(58, 8, 3) == '072' and dec2x(-100, 8) == '7777777634' and dec2x(28, 16) == '1C' and dec2x(64, 16, 1) == NUM
    assert x2dec('0', 2) == 0 and x2dec('111111111', 2) == 511 and x2dec('1000000000', 2) == -512 and x2dec('fffffffffe', 2) == NUM
    assert x2dec('9999999999', 16) == -439804651111 and x2dec('11111111111', 16) == NUM and x2dec('f000000000', 16) == -68719476736
    assert x2dec('7777777777', 8) == -1 and x2dec('a', 8) == NUM and x2dec('-1', 2) == NUM and x2dec('2.3', 2) == NUM
    assert x2dec('1100100', 2) == 100 and x2dec('1111111111', 2) == -1 and x2dec('A5', 16) == 165 and x2dec('FFFFFFFF5B', 16) == -165
    assert x2dec('3DA408B9', 16) == 1034160313 and x2dec('54', 8) == 44 and x2dec('7777777533', 8) == -165
    assert x2y('111111111', 2, 16) == '1FF' and x2y('1000000000', 2, 16) == 'FFFFFFFE00' and x2y('1000000000', 2, 8) == '7777777000'
    assert x2y('0', 2, 16, 0) == NUM and x2y('9999999999', 16, 2) == NUM and x2y('fffffffffe', 16, 2) == '1111111110'
    assert x2y('fffffffffe', 16, 8) == '7777777776' and x2y('7777777777', 8, 2) == '1111111111' and x2y('7777777777', 8, 16) == 'FFFFFFFFFF'
    assert x2y('11111011', 2, 16, 4) == '00FB' and x2y('1110', 2, 16) == 'E' and x2y('1001', 2, 8, 3) == '011' and x2y('F', 16, 2, 8) == '00001111'
    assert x2y('B7', 16, 2) == '10110111' and x2y('3', 8, 2, 3) == '011' and x2y('7777777000', 8, 2) == '1000000000' and x2y('100', 8, 16, 4) == '0040'
    assert x2y('3B4E', 16, 8) == '35516' and x2y('FFFFFFFF00', 16, 8) == '7777777400' and x2y('7777777533', 8, 16) == 'FFFFFFFF5B'
    for b in (2, 8, 16):
        lo, hi = bounds(b)
        for n in list(range(-700, 700)) + [lo, lo + 1, hi - 1, hi]:
            if lo <= n <= hi:
                s = dec2x(n, b)
                assert x2dec(s, b) == n and int(s, b) == n % b ** WIDTH and x2dec(pattern(n, b), b) == n, (n, b)
    return True
