"""Reference cell-set semantics for rectangles (independent of the code under test).
A rectangle is (c1, r1, c2, r2), 1-based inclusive."""
import collections


def all_rects(n):
    return [(c1, r1, c2, r2) for c1 in range(1, n + 1) for c2 in range(c1, n + 1)
            for r1 in range(1, n + 1) for r2 in range(r1, n + 1)]


def col(n):
    s = ''
    while n:
        n, r = divmod(n - 1, 26)
        s = chr(65 + r) + s
    return s


def name(t):
    c1, r1, c2, r2 = t
    if (c1, r1) == (c2, r2):
        return '%s%d' % (col(c1), r1)      # canonical form of a single cell
    return '%s%d:%s%d' % (col(c1), r1, col(c2), r2)


def cells(t):
    c1, r1, c2, r2 = t
    return {(c, r) for c in range(c1, c2 + 1) for r in range(r1, r2 + 1)}


def bbox(*ts):
    return (min(t[0] for t in ts), min(t[1] for t in ts), max(t[2] for t in ts), max(t[3] for t in ts))


def inter(a, b):
    c1, r1, c2, r2 = max(a[0], b[0]), max(a[1], b[1]), min(a[2], b[2]), min(a[3], b[3])
    return (c1, r1, c2, r2) if c1 <= c2 and r1 <= r2 else None


def val(c, r):
    return 10 * r + c


def grid_of(t):
    c1, r1, c2, r2 = t
    return [[val(c, r) for c in range(c1, c2 + 1)] for r in range(r1, r2 + 1)]


def colnum(s):
    n = 0
    for ch in s:
        n = n * 26 + ord(ch) - 64
    return n
