"""Reference scalar operator semantics (C02 statement + Excel's documented rules).
Every function returns a *set* of acceptable answers (multi-answer where the
statement leaves the case open, DESIGN.md 3.1)."""
import math
from .values import *

ARITH = ['+', '-', '*', '/', '^']
CMP = ['=', '<>', '<', '>', '<=', '>=']
BINOPS = ARITH + ['&'] + CMP
REALROOT = 'REALROOT'   # marker: any real finite number accepted


def first_error(*vs):
    for v in vs:
        if v[0] == 'e':
            return v
    return None


def arith(op, a, b):
    e = first_error(a, b)
    x = None if a[0] == 'e' else to_number(a)
    y = None if b[0] == 'e' else to_number(b)
    if e is not None:
        out = {e}
        # "other text gives #VALUE!" vs "left-most error": both accepted
        if (a[0] == 't' and x is None) or (b[0] == 't' and y is None):
            out.add(VALUE)
        return out
    if x is None or y is None:
        out = {VALUE}
        # numeric-looking text whose value overflows a double ("1E+2000"): #VALUE! or #NUM!, not fixed by the statement
        for v in (a, b):
            if v[0] == 't':
                import re
                t = v[1].strip()
                if re.fullmatch(r'[+-]?(\d+(\.\d*)?|\.\d+)([eE][+-]?\d+)?', t) and abs(float(t)) == math.inf:
                    out.add(NUM)
        return out
    try:
        if op == '+':
            r = x + y
        elif op == '-':
            r = x - y
        elif op == '*':
            r = x * y
        elif op == '/':
            if y == 0:
                return {DIV}
            r = x / y
        elif op == '^':
            if x == 0 and y == 0:
                return {NUM}
            if x == 0 and y < 0:
                return {DIV}
            if x < 0 and y != int(y):
                return {NUM, REALROOT}
            r = x ** y
    except OverflowError:
        return {NUM}
    except ZeroDivisionError:
        return {DIV}
    return {fin(r)}


def rank(v):
    return {'n': 0, 't': 1, 'b': 2}[v[0]]


def adapt_blank(a, b):
    if a[0] == 'blank' and b[0] == 'blank':
        return N(0), N(0)
    z = {'n': N(0), 't': T(''), 'b': B(False)}
    if a[0] == 'blank':
        a = z[b[0]]
    if b[0] == 'blank':
        b = z[a[0]]
    return a, b


def sort_key(v):
    return (rank(v), v[1].upper() if v[0] == 't' else v[1])


def compare(op, a, b):
    e = first_error(a, b)
    if e is not None:
        return {e}
    a, b = adapt_blank(a, b)
    ka, kb = sort_key(a), sort_key(b)
    if ka[0] != kb[0]:
        c = -1 if ka[0] < kb[0] else 1
    else:
        c = -1 if ka[1] < kb[1] else (1 if ka[1] > kb[1] else 0)
    r = {'=': c == 0, '<>': c != 0, '<': c < 0, '>': c > 0, '<=': c <= 0, '>=': c >= 0}[op]
    return {B(r)}


def concat(a, b):
    e = first_error(a, b)
    if e is not None:
        return {e}
    return {T(x + y) for x in displays(a) for y in displays(b)}


def binary(op, a, b):
    if op in ARITH:
        return arith(op, a, b)
    if op == '&':
        return concat(a, b)
    return compare(op, a, b)


def unary(op, a):
    """op in 'u-', 'u+', '%'."""
    if a[0] == 'e':
        return {a}
    if op == 'u+':
        # identity on every kind (audited on the OPERATORS sheet); a blank
        # reference shows as 0
        return {N(0)} if a[0] == 'blank' else {a}
    x = to_number(a)
    if x is None:
        return {VALUE}
    return {fin(-x if op == 'u-' else x / 100.0)}


def accepted(got, exp, rel=1e-12):
    """got: classified implementation value; exp: set from above."""
    if got[0] == 'BAD':
        return False
    for e in exp:
        if e == REALROOT:
            if got[0] == 'n':
                return True
            continue
        if close(got, e, rel):
            return True
    return False
