"""Reference definitions of the C12 worksheet functions, written from Excel's
documented behaviour (never importing formulas) and audited against the
Excel-computed values of test.xlsx by ref/funcs_audit.py.

Arguments are descriptors that keep the typed / referenced distinction:
  ('v', value)   directly typed scalar          ('c', value)  one referenced cell
  ('r', rows)    referenced range (2-D list)    ('a', rows)   array literal
  ('omit',)      empty argument
values as in ref/values.py.  `call(name, args)` returns the *set* of accepted
answers (ANYNUM: any finite number) or None when the case is left undecided
(excluded from the property's alphabet, see ASSUMPTIONS of checks/c12.py)."""
import math, itertools
from decimal import Decimal, localcontext, ROUND_HALF_UP, ROUND_UP, ROUND_DOWN, ROUND_CEILING, ROUND_FLOOR
from .values import *

ANYNUM = ('n', 'any')
FUNCS = {}      # name -> callable(args) -> value | set of values
LIFT = {}       # name -> 'all' | tuple of lifted argument indexes | None (aggregating)
LOOSE = set()   # names compared to 1e-9 relative (transcendental, STDEV/VAR); others 1e-12
ALIASES = {'STDEV': 'STDEV.S', 'STDEVP': 'STDEV.P', 'VAR': 'VAR.S', 'VARP': 'VAR.P'}
TRIG_LIMIT = 2.0 ** 27   # Excel's circular functions give #NUM! from here on in some versions
NUMERR, DIVERR = NUM, DIV


class Und(Exception):
    """case not decided by the oracle"""


class Coerce(Exception):
    pass


class Err(Exception):
    def __init__(self, vals):
        self.vals = set(vals)


def tv(v):
    return tuple(v)


def flat(a):
    if a[0] in ('v', 'c'):
        return [tv(a[1])]
    return [tv(v) for row in a[1] for v in row]


def scalar(a):
    if a[0] == 'omit':
        raise Und('omitted')
    vs = flat(a)
    if len(vs) != 1:
        raise Und('multi-cell argument of a scalar position (lifting is C05)')
    return vs[0]


def has_digit(s):
    return any(ch.isdigit() for ch in s)


def c_num(v):
    x = to_number(v)
    if x is None:
        if has_digit(v[1]):
            raise Und('date/locale-like text')
        raise Coerce()
    return x


def c_txt(v):
    return sorted(displays(v))


def c_log(v):
    k = v[0]
    if k == 'b':
        return v[1]
    if k == 'n':
        return v[1] != 0
    if k == 'blank':
        return False
    if v[1].strip().upper() in ('TRUE', 'FALSE'):
        raise Und('logical text')
    raise Coerce()


COERCE = {'n': c_num, 't': c_txt, 'l': c_log}
BENIGN = {'n': [[1.0], [2.0]], 't': [['a']], 'l': [[True]], 'x': [[N(1)]]}


def errset(probs):
    """probs: ordered ('r', error) real errors / ('c', VALUE) coercion failures.
    The left-most decides; a coercion failure together with a real error is
    left open (statement: 'other text gives #VALUE!' vs 'left-most error')."""
    out = {probs[0][1]}
    reals = [e for k, e in probs if k == 'r']
    if reals and len(reals) != len(probs):
        out |= {VALUE, reals[0]}
    return out


def as_set(r):
    return r if isinstance(r, set) else {r}


def run_scalar(core, spec, nmin, args):
    if not nmin <= len(args) <= len(spec):
        raise Und('arity')
    probs, vals, first_real = [], [], None
    for i, (a, k) in enumerate(zip(args, spec)):
        v = scalar(a)
        if k == 'x':
            vals.append([v])
            continue
        if v[0] == 'e':
            probs.append(('r', v))
            vals.append(None)
            first_real = i if first_real is None else first_real
            continue
        try:
            r = COERCE[k](v)
        except Coerce:
            probs.append(('c', VALUE))
            vals.append(None)
            continue
        vals.append(r if isinstance(r, list) else [r])
    if probs:
        out = errset(probs)
        # a domain error already fixed by the arguments before the first error
        # argument (e.g. MID("abc",0,#N/A)) is accepted as well
        if first_real and all(v is not None for v in vals[:first_real]):
            seen = None
            for cand in itertools.product(*[BENIGN[k] for k in spec[first_real:len(args)]]):
                rs = set()
                for combo in itertools.product(*(vals[:first_real] + list(cand))):
                    try:
                        rs |= as_set(core(*combo))
                    except Und:
                        rs.add(None)
                seen = rs if seen is None else seen & rs
            out |= {r for r in (seen or ()) if r is not None and r[0] == 'e'}
        return out
    out = set()
    for combo in itertools.product(*vals):
        out |= as_set(core(*combo))
    return out


def fn(names, spec, nmin=None, loose=False, lift='all'):
    def deco(core):
        for name in names.split():
            FUNCS[name] = lambda args, core=core: run_scalar(core, spec, len(spec) if nmin is None else nmin, args)
            LIFT[name] = lift
            if loose:
                LOOSE.add(name)
        return core
    return deco


def raw(names, lift='all', loose=False):
    def deco(f):
        for name in names.split():
            FUNCS[name] = f
            LIFT[name] = lift
            if loose:
                LOOSE.add(name)
        return f
    return deco


def fnum(x):
    return fin(x)


# ---------------------------------------------------------------- mathematics
def _m1(name, f, dom=lambda x: True, trig=False):
    def core(x):
        if not dom(x):
            return NUM
        try:
            r = fnum(f(x))
        except OverflowError:
            return NUM
        except ValueError:
            return NUM
        if trig and abs(x) >= TRIG_LIMIT:
            return {r, NUM, ANYNUM}
        return r
    fn(name, 'n', loose=True)(core)


_m1('SQRT', math.sqrt, lambda x: x >= 0)
_m1('EXP', math.exp)
_m1('LN', math.log, lambda x: x > 0)
_m1('LOG10', math.log10, lambda x: x > 0)
_m1('SIN', math.sin, trig=True)
_m1('COS', math.cos, trig=True)
_m1('TAN', math.tan, trig=True)
_m1('ASIN', math.asin, lambda x: abs(x) <= 1)
_m1('ACOS', math.acos, lambda x: abs(x) <= 1)
_m1('ATAN', math.atan)
_m1('SINH', math.sinh)
_m1('COSH', math.cosh)
_m1('TANH', math.tanh)
_m1('ASINH', math.asinh)
_m1('ACOSH', math.acosh, lambda x: x >= 1)
_m1('ATANH', math.atanh, lambda x: abs(x) < 1)
_m1('DEGREES', math.degrees)
_m1('RADIANS', math.radians)
_m1('ACOT', lambda x: math.pi / 2 if x == 0 else (math.atan(1 / x) + (math.pi if x < 0 else 0)))


def _recip(name, f):
    def core(x):
        y = f(x)
        if y == 0:
            return DIV
        r = fnum(1 / y)
        if abs(x) >= TRIG_LIMIT:
            return {r, NUM, ANYNUM}
        return r
    fn(name, 'n', loose=True)(core)


_recip('COT', math.tan)
_recip('SEC', math.cos)
_recip('CSC', math.sin)


@raw('PI', lift=None)
def _pi(args):
    if args:
        raise Und('arity')
    return N(math.pi)


@fn('ABS', 'n')
def _abs(x):
    return N(abs(x))


@fn('INT', 'n')
def _int(x):
    return N(math.floor(x))


@fn('SIGN', 'n')
def _sign(x):
    return N((x > 0) - (x < 0))


@fn('EVEN', 'n')
def _even(x):
    v = math.ceil(abs(x) / 2.0) * 2
    return N(-v if x < 0 else v)


@fn('ODD', 'n')
def _odd(x):
    c = math.ceil(abs(x))
    if c % 2 == 0:
        c += 1
    return N(-c if x < 0 else c)


@fn('LOG', 'nn', 1, loose=True)
def _log(x, b=10.0):
    if x <= 0 or b <= 0:
        return NUM
    if b == 1:
        raise Und('LOG base 1')
    return fnum(math.log(x) / math.log(b))


@fn('POWER', 'nn', loose=True)
def _power(x, y):
    if x == 0 and y == 0:
        return NUM
    if x == 0 and y < 0:
        return DIV
    if x < 0 and y != int(y):
        return {NUM, ANYNUM}          # Excel yields the real odd root where there is one
    try:
        r = x ** y
    except OverflowError:
        return NUM
    if r == 0 and x != 0:
        return {N(0), NUM}            # underflow
    return fnum(r)


@fn('ATAN2', 'nn', loose=True)
def _atan2(x, y):
    if x == 0 and y == 0:
        return DIV
    return N(math.atan2(y, x))


@fn('MOD', 'nn')
def _mod(n, d):
    if d == 0:
        return DIV
    q = n / d
    if abs(q) >= TRIG_LIMIT:
        raise Und('MOD quotient limit differs between Excel versions')
    r = math.fmod(n, d)
    if r == 0:
        return N(0)
    if abs(q - round(q)) <= 1e-9 * max(1.0, abs(q)):
        raise Und('MOD with a quotient one rounding error away from an integer')
    if (r < 0) != (d < 0):
        r += d
    return {N(n - d * math.floor(q)), N(r)}      # Excel's n - d*INT(n/d) in doubles, or the exactly reduced remainder


def dec(x):
    return Decimal(repr(float(x)))


def digits(d):
    if abs(d) > 300:
        raise Und('digits beyond the double range')
    return int(d)       # truncated towards zero (ROUND(0.234,1.9) = 0.2)


def _rounder(mode):
    def core(x, d=0.0):
        d = digits(d)
        with localcontext() as c:
            c.prec = 800
            r = dec(x).quantize(Decimal(1).scaleb(-d), rounding=mode)
            try:
                return fnum(float(r))
            except OverflowError:
                return NUM
    return core


fn('ROUND', 'nn')(_rounder(ROUND_HALF_UP))
fn('ROUNDUP', 'nn')(_rounder(ROUND_UP))
fn('ROUNDDOWN', 'nn')(_rounder(ROUND_DOWN))
fn('TRUNC', 'nn', 1)(_rounder(ROUND_DOWN))


def _multiple(x, s, mode):
    with localcontext() as c:
        c.prec = 60
        q = (dec(x) / dec(s)).to_integral_value(rounding=mode)
        return fnum(float(q * dec(s)))


@fn('CEILING', 'nn')
def _ceiling(x, s):
    if s == 0 or x == 0:
        return N(0)
    if x > 0 and s < 0:
        return NUM
    r = _multiple(x, s, ROUND_CEILING)
    return {r, NUM} if x < 0 < s else r      # negative number, positive significance: #NUM! before Excel 2010


@fn('FLOOR', 'nn')
def _floor(x, s):
    if s == 0:
        return {N(0), DIV} if x == 0 else DIV
    if x == 0:
        return N(0)
    if x > 0 and s < 0:
        return NUM
    r = _multiple(x, s, ROUND_FLOOR)
    return {r, NUM} if x < 0 < s else r


# -------------------------------------------------------------------- logical
def deref(a):
    """value of a result-position argument as a cell shows it"""
    if a[0] == 'omit':
        return N(0)
    v = scalar(a)
    return N(0) if v[0] == 'blank' else v


def cond(a):
    """-> True/False, or raises Err"""
    v = scalar(a)
    if v[0] == 'e':
        raise Err({v})
    try:
        return c_log(v)
    except Coerce:
        raise Err({VALUE})


@raw('IF')
def _if(args):
    if not 2 <= len(args) <= 3:
        raise Und('arity')
    try:
        c = cond(args[0])
    except Err as e:
        return e.vals
    if c:
        return deref(args[1])
    return deref(args[2]) if len(args) == 3 else B(False)


@raw('IFS')
def _ifs(args):
    if len(args) < 2 or len(args) % 2:
        raise Und('arity')
    for c, v in zip(args[::2], args[1::2]):
        try:
            if cond(c):
                return deref(v)
        except Err as e:
            return e.vals
    return NA


def _same(a, b):
    """SWITCH's match (the = operator on same-kind values); None = left open"""
    if 'blank' in (a[0], b[0]):
        return None
    if a[0] != b[0]:
        return False
    if a[0] == 't' and a[1] != b[1] and a[1].upper() == b[1].upper():
        return None
    return a[1] == b[1]


@raw('SWITCH')
def _switch(args):
    if len(args) < 3:
        raise Und('arity')
    v = scalar(args[0])
    if v[0] == 'e':
        return v
    rest = args[1:]
    for k, r in zip(rest[::2], rest[1::2]):
        if k[0] == 'omit':
            raise Und('empty key')
        k = scalar(k)
        if k[0] == 'e':
            raise Und('error key')
        m = _same(v, k)
        if m is None:
            raise Und('blank / case-only match')
        if m:
            return deref(r)
    return deref(rest[-1]) if len(rest) % 2 else NA


@raw('NOT')
def _not(args):
    if len(args) != 1:
        raise Und('arity')
    try:
        return B(not cond(args[0]))
    except Err as e:
        return e.vals


def _iferr(pred):
    def f(args):
        if len(args) != 2 or args[1][0] == 'omit':
            raise Und('arity')
        v = scalar(args[0])
        if v[0] == 'e' and pred(v):
            return deref(args[1])
        return N(0) if v[0] == 'blank' else v
    return f


raw('IFERROR')(_iferr(lambda v: True))
raw('IFNA')(_iferr(lambda v: v == NA))


def logicals(args):
    """values AND/OR/XOR look at; first error wins"""
    out = []
    for a in args:
        if a[0] == 'omit':
            raise Und('omitted')
        for v in flat(a):
            k = v[0]
            if k == 'e':
                raise Err({v})
            if k == 'n':
                out.append(v[1] != 0)
            elif k == 'b':
                out.append(v[1])
            elif k == 't' and a[0] == 'v':
                raise Und('directly typed text in AND/OR/XOR')   # corpus: AND(TRUE,"0") = TRUE
            # text and blanks inside references/arrays are ignored
    if not out:
        raise Err({VALUE})
    return out


def _logic(red):
    def f(args):
        if not args:
            raise Und('arity')
        try:
            return B(red(logicals(args)))
        except Err as e:
            return e.vals
    return f


raw('AND', lift=None)(_logic(all))
raw('OR', lift=None)(_logic(any))
raw('XOR', lift=None)(_logic(lambda vs: sum(vs) % 2 == 1))


# ---------------------------------------------------------------- information
def _is(pred):
    def f(args):
        if len(args) != 1:
            raise Und('arity')
        return B(pred(scalar(args[0])))
    return f


raw('ISBLANK')(_is(lambda v: v[0] == 'blank'))
raw('ISERR')(_is(lambda v: v[0] == 'e' and v != NA))
raw('ISERROR')(_is(lambda v: v[0] == 'e'))
raw('ISNA')(_is(lambda v: v == NA))
raw('ISNUMBER')(_is(lambda v: v[0] == 'n'))
raw('ISTEXT')(_is(lambda v: v[0] == 't'))
raw('ISNONTEXT')(_is(lambda v: v[0] != 't'))
raw('ISLOGICAL')(_is(lambda v: v[0] == 'b'))


def _parity(odd):
    def f(args):
        if len(args) != 1 or args[0][0] == 'omit':
            raise Und('arity')
        vs = flat(args[0])
        if len(vs) != 1 and args[0][0] == 'a':
            raise Und('array literal')
        if len(vs) != 1 or vs[0][0] == 'b':
            return VALUE                     # a multi-cell range is not lifted (corpus)
        v = vs[0]
        if v[0] == 'e':
            return v
        try:
            x = c_num(v)
        except Coerce:
            return VALUE
        if abs(x) >= 2.0 ** 53:
            raise Und('beyond exact integers')
        return B((int(x) % 2 == 1) == odd)
    return f


raw('ISEVEN', lift=None)(_parity(False))
raw('ISODD', lift=None)(_parity(True))


# --------------------------------------------------------------- aggregations
def numbers(args, a_mode=False):
    """numbers an aggregation takes into account; raises Err for the error result"""
    out, probs = [], []
    for a in args:
        if a[0] == 'omit':
            raise Und('omitted argument')
        if a[0] == 'v':
            v = tv(a[1])
            k = v[0]
            if k == 'e':
                probs.append(('r', v))
            elif k == 'n':
                out.append(v[1])
            elif k == 'b':
                out.append(1.0 if v[1] else 0.0)
            elif k == 't':
                x = text_to_number(v[1])
                if x is not None:
                    out.append(x)
                elif has_digit(v[1]):
                    raise Und('date/locale-like text')
                else:
                    probs.append(('c', VALUE))
            else:
                raise Und('typed blank')
            continue
        for v in flat(a):
            k = v[0]
            if k == 'e':
                probs.append(('r', v))
            elif k == 'n':
                out.append(v[1])
            elif k == 't':
                if has_digit(v[1]) and a[0] == 'a':
                    raise Und('numeric text inside an array literal')
                if a_mode:
                    if a[0] == 'a':
                        raise Und('text in an array literal for the ...A functions')
                    out.append(0.0)
            elif k == 'b' and a_mode:
                if a[0] == 'a':
                    raise Und('logical in an array literal for the ...A functions')
                out.append(1.0 if v[1] else 0.0)
    if probs:
        raise Err(errset(probs))
    return out


def agg(names, f, loose=False, a_mode=False):
    def g(args):
        if not args:
            raise Und('arity')
        try:
            return f(numbers(args, a_mode))
        except Err as e:
            return e.vals
    raw(names, lift=None, loose=loose)(g)


def _prod(xs):
    r = 1.0
    for x in xs:
        r *= x
    return r


def _median(xs):
    if not xs:
        return NUM
    s = sorted(xs)
    n = len(s)
    return N(s[n // 2]) if n % 2 else fnum((s[n // 2 - 1] + s[n // 2]) / 2.0)


def _var(ddof, root):
    def f(xs):
        n = len(xs)
        if n <= ddof:
            return DIV
        m = math.fsum(xs) / n
        v = math.fsum((x - m) ** 2 for x in xs) / (n - ddof)
        return fnum(math.sqrt(v) if root else v)
    return f


agg('SUM', lambda xs: fnum(math.fsum(xs)))
agg('PRODUCT', lambda xs: fnum(_prod(xs)) if xs else N(0))
agg('SUMSQ', lambda xs: fnum(math.fsum(x * x for x in xs)))
agg('AVERAGE', lambda xs: fnum(math.fsum(xs) / len(xs)) if xs else DIV)
agg('MIN', lambda xs: N(min(xs)) if xs else N(0))
agg('MAX', lambda xs: N(max(xs)) if xs else N(0))
agg('MEDIAN', _median)
agg('STDEV.S', _var(1, True), loose=True)
agg('STDEV.P', _var(0, True), loose=True)
agg('VAR.S', _var(1, False), loose=True)
agg('VAR.P', _var(0, False), loose=True)
agg('STDEVA', _var(1, True), loose=True, a_mode=True)
agg('STDEVPA', _var(0, True), loose=True, a_mode=True)
agg('VARA', _var(1, False), loose=True, a_mode=True)
agg('VARPA', _var(0, False), loose=True, a_mode=True)
agg('AVERAGEA', lambda xs: fnum(math.fsum(xs) / len(xs)) if xs else DIV, a_mode=True)
agg('MINA', lambda xs: N(min(xs)) if xs else N(0), a_mode=True)
agg('MAXA', lambda xs: N(max(xs)) if xs else N(0), a_mode=True)


@raw('COUNT', lift=None)
def _count(args):
    if not args:
        raise Und('arity')
    n = 0
    for a in args:
        if a[0] == 'omit':
            raise Und('omitted argument')
        if a[0] == 'v':
            v = tv(a[1])
            if v[0] in 'nb':
                n += 1
            elif v[0] == 't':
                if text_to_number(v[1]) is not None:
                    n += 1
                elif has_digit(v[1]):
                    raise Und('date/locale-like text')
            continue
        for v in flat(a):
            if v[0] == 't' and has_digit(v[1]) and a[0] == 'a':
                raise Und('numeric text inside an array')
            n += v[0] == 'n'
    return N(n)


@raw('COUNTA', lift=None)
def _counta(args):
    if not args:
        raise Und('arity')
    if any(a[0] == 'omit' for a in args):
        raise Und('omitted argument')
    return N(sum(v[0] != 'blank' for a in args for v in flat(a)))


@raw('COUNTBLANK', lift=None)
def _countblank(args):
    if len(args) != 1 or args[0][0] not in 'cr':
        raise Und('COUNTBLANK takes one reference')
    return N(sum(v[0] == 'blank' or v == T('') for v in flat(args[0])))


def _kth(large):
    def f(args):
        if len(args) != 2 or args[0][0] in ('v', 'omit'):
            raise Und('arity / typed scalar as the array')
        probs = [('r', v) for v in flat(args[0]) if v[0] == 'e'][:1]
        xs = sorted(v[1] for v in flat(args[0]) if v[0] == 'n')
        if args[0][0] == 'a' and any(v[0] == 't' and has_digit(v[1]) for v in flat(args[0])):
            raise Und('numeric text inside an array literal')
        kv = scalar(args[1])
        k = None
        if kv[0] == 'e':
            probs.append(('r', kv))
        else:
            try:
                k = c_num(kv)
            except Coerce:
                probs.append(('c', VALUE))
        n = len(xs)
        if probs:                             # array error vs. k error vs. k out of range: order left open
            return {e for _, e in probs} | ({NUM} if k is not None and not 1 <= k <= n else set())
        if k < 1:
            return NUM
        if large:
            i = math.ceil(k)                  # corpus: LARGE(range,2.2) is the 3rd largest
            return N(xs[n - i]) if i <= n else NUM
        i = math.floor(k)                     # corpus: SMALL(range,2.2) is the 2nd smallest
        if i > n:
            return NUM
        return {N(xs[i - 1]), NUM} if k > n else N(xs[i - 1])      # n < k < n+1: 'k exceeds the number of data points' left open
    return f


raw('LARGE', lift=(1,))(_kth(True))
raw('SMALL', lift=(1,))(_kth(False))


@raw('SUMPRODUCT', lift=None)
def _sumproduct(args):
    if not args or any(a[0] in ('v', 'omit') for a in args):
        raise Und('only references and arrays')
    shapes = {(len(a[1]), len(a[1][0])) if a[0] != 'c' else (1, 1) for a in args}
    cols = [flat(a) for a in args]
    errs = [v for c in cols for v in c if v[0] == 'e']
    if errs:
        if len(shapes) > 1:
            raise Und('error and shape mismatch')
        return set(errs) if len(set(errs)) > 1 else errs[0]     # which of several errors: left open
    if len(shapes) > 1:
        return VALUE
    return fnum(math.fsum(_prod([v[1] if v[0] == 'n' else 0.0 for v in t]) for t in zip(*cols)))


# ----------------------------------------------------------------------- text
@fn('LEN', 't')
def _len(s):
    return N(len(s))


@fn('UPPER', 't')
def _upper(s):
    return T(s.upper())


@fn('LOWER', 't')
def _lower(s):
    return T(s.lower())


@fn('TRIM', 't')
def _trim(s):
    return T(' '.join(w for w in s.split(' ') if w))


@fn('LEFT', 'tn', 1)
def _left(s, n=1.0):
    return VALUE if n < 0 else T(s[:int(n)])


@fn('RIGHT', 'tn', 1)
def _right(s, n=1.0):
    if n < 0:
        return VALUE
    return T(s[len(s) - int(n):] if int(n) < len(s) else s)


@fn('MID', 'tnn')
def _mid(s, a, n):
    if a < 1 or n < 0:
        return VALUE
    return T(s[int(a) - 1:int(a) - 1 + int(n)])


@fn('REPLACE', 'tnnt')
def _replace(s, a, n, new):
    if a < 1 or n < 0:
        return VALUE
    return T(s[:int(a) - 1] + new + s[int(a) - 1 + int(n):])


def _finder(fold):
    def core(f, w, a=1.0):
        a = int(max(min(a, 1e9), -1.0))
        if a < 1:
            return VALUE
        if fold and any(ch in f for ch in '?*~'):
            raise Und('wildcards')
        if fold:
            f, w = fold(f), fold(w)
        if a > len(w):
            return {N(a), VALUE} if f == '' and a == len(w) + 1 else VALUE   # start just past the end with empty find_text: open
        i = w.find(f, a - 1)
        return VALUE if i < 0 else N(i + 1)
    return core


fn('FIND', 'ttn', 2)(_finder(None))
fn('SEARCH', 'ttn', 2)(_finder(str.lower))


@raw('SUBSTITUTE')
def _substitute(args):
    if len(args) == 4 and args[3][0] != 'omit' and scalar(args[3])[0] == 'b':
        raise Und('logical instance_num')

    def core(s, old, new, inst=None):
        if inst is not None and inst < 1:
            return VALUE
        if old == '':
            return T(s)
        if inst is None:
            return T(s.replace(old, new))
        parts = s.split(old)
        i = int(inst)
        if i > len(parts) - 1:
            return T(s)
        return T(old.join(parts[:i]) + new + old.join(parts[i:]))
    return run_scalar(core, 'tttn', 3, args)


@raw('VALUE')
def _value(args):
    if len(args) != 1:
        raise Und('arity')
    v = scalar(args[0])
    if v[0] in 'en':
        return v
    if v[0] == 'b':
        return VALUE
    if v[0] == 'blank':
        return N(0)
    x = text_to_number(v[1])
    if x is not None:
        return N(x)
    if has_digit(v[1]):
        raise Und('locale dependent text')
    return VALUE


def pieces(args, scalar_only):
    """display texts of the joined items (row-major), first error wins"""
    out = [[]]
    for a in args:
        if a[0] == 'omit':
            raise Und('omitted argument')
        vs = [scalar(a)] if scalar_only else flat(a)
        for v in vs:
            if v[0] == 'e':
                raise Err({v})
            out = [o + [s] for o in out for s in c_txt(v)]
    return out


def _concat(scalar_only):
    def f(args):
        if not args:
            raise Und('arity')
        try:
            return {T(''.join(p)) for p in pieces(args, scalar_only)}
        except Err as e:
            return e.vals
    return f


raw('CONCAT', lift=None)(_concat(False))
raw('CONCATENATE')(_concat(True))


@raw('TEXTJOIN', lift=None)
def _textjoin(args):
    if len(args) < 3:
        raise Und('arity')
    d, ig = scalar(args[0]), scalar(args[1])
    errs = [v for v in [d, ig] + [v for a in args[2:] if a[0] != 'omit' for v in flat(a)] if v[0] == 'e']
    if errs:
        return set(errs) if d[0] == 'e' or ig[0] == 'e' else errs[0]
    if ig[0] == 't':
        raise Und('text as ignore_empty')
    ig = c_log(ig)
    out = set()
    for sep in c_txt(d):
        for p in pieces(args[2:], False):
            out.add(T(sep.join(s for s in p if s != '' or not ig)))
    return out


# ------------------------------------------------------------------ interface
def canon(name):
    name = name.upper()
    if name.startswith('_XLFN.'):
        name = name[6:]
    return ALIASES.get(name, name)


def call(name, args):
    """set of accepted answers, or None if the oracle leaves the case open"""
    f = FUNCS.get(canon(name))
    if f is None:
        return None
    try:
        r = as_set(f([tuple(a) for a in args]))
    except Und:
        return None
    except Err as e:
        r = e.vals
    return {N(0) if v == BLANK else v for v in r}


def tol(name):
    return 1e-9 if canon(name) in LOOSE else 1e-12


def accepted(got, exp, rel):
    if got[0] == 'BAD':
        return False
    for e in exp:
        if e == ANYNUM:
            if got[0] == 'n':
                return True
        elif got[0] == 'n' and e[0] == 'n':
            if got[1] == e[1] or abs(got[1] - e[1]) <= max(rel * max(abs(got[1]), abs(e[1])), 1e-300 if rel < 1e-10 else 1e-15):
                return True
        elif got == e:
            return True
    return False
