"""Reference Excel value model (independent of the code under test).
Values: ('n', float) ('t', str) ('b', bool) ('e', code) ('blank',)."""
import math

ERRS = ['#NULL!', '#DIV/0!', '#VALUE!', '#REF!', '#NAME?', '#NUM!', '#N/A']
VALUE, DIV, NUM, NA, REF, NAME, NULL = (('e', c) for c in ('#VALUE!', '#DIV/0!', '#NUM!', '#N/A', '#REF!', '#NAME?', '#NULL!'))


def N(x):
    return ('n', float(x))


def T(s):
    return ('t', s)


def B(b):
    return ('b', bool(b))


BLANK = ('blank',)


def is_err(v):
    return v[0] == 'e'


def text_to_number(s):
    """Numeric text as Excel's arithmetic coercion reads it (subset that the
    properties fix: optional padding, sign, decimals, exponent)."""
    s = s.strip()
    if not s:
        return None
    import re
    if not re.fullmatch(r'[+-]?(\d+(\.\d*)?|\.\d+)([eE][+-]?\d+)?', s):
        return None
    try:
        x = float(s)
    except ValueError:
        return None
    if x != x or abs(x) == math.inf:
        return None
    return x


def to_number(v):
    """Arithmetic coercion; None means #VALUE!."""
    k = v[0]
    if k == 'n':
        return v[1]
    if k == 'b':
        return 1.0 if v[1] else 0.0
    if k == 'blank':
        return 0.0
    if k == 't':
        return text_to_number(v[1])
    raise ValueError(v)


def fin(x):
    if isinstance(x, complex) or x != x or abs(x) == math.inf:
        return NUM
    return ('n', float(x))


def display(v):
    """General-format display form used by & (15 significant digits)."""
    k = v[0]
    if k == 'n':
        x = v[1]
        if x == 0:
            return '0'
        if x == int(x) and abs(x) < 1e15:
            return '%d' % x
        s = '%.15g' % x
        if 'e' in s:
            m, e = s.split('e')
            s = '%sE%s%02d' % (m, e[0], int(e[1:]))
        return s
    if k == 't':
        return v[1]
    if k == 'b':
        return 'TRUE' if v[1] else 'FALSE'
    if k == 'blank':
        return ''
    raise ValueError(v)


def displays(v):
    """All display forms accepted for a value: between 1E-10 and 1E-4 both the
    fixed and the scientific rendering are accepted (Excel's switch point is
    not fixed by the property)."""
    out = {display(v)}
    if v[0] == 'n' and v[1] != 0 and 1e-10 <= abs(v[1]) < 1e-4:
        s = '%.15g' % v[1]
        if 'e' in s:
            e = int(s.split('e')[1])
            out.add(('%.*f' % (14 - e, v[1])).rstrip('0'))
    return out


def close(a, b, rel=1e-12):
    if a[0] != b[0]:
        return False
    if a[0] == 'n':
        return a[1] == b[1] or abs(a[1] - b[1]) <= rel * max(abs(a[1]), abs(b[1]))
    return a == b


def literal(v):
    """Formula-text spelling of a value (None: not spellable, e.g. blank)."""
    k = v[0]
    if k == 'n':
        x = v[1]
        if x == int(x) and abs(x) < 1e15:
            s = '%d' % abs(x)
        else:
            s = repr(abs(x)).upper()
            if 'E' in s:
                m, e = s.split('E')
                if e[0] not in '+-':
                    e = '+' + e
                s = m + 'E' + e
        return ('-' if x < 0 or (x == 0 and math.copysign(1, x) < 0) else '') + s
    if k == 't':
        return '"%s"' % v[1].replace('"', '""')
    if k == 'b':
        return 'TRUE' if v[1] else 'FALSE'
    if k == 'e':
        return v[1]
    return None
