"""Reference calendar for Excel's 1900 date system (independent of /repo and of
Python's datetime: pure ordinal arithmetic, scalar and numpy-vectorised).

serial 0            -> (1900, 1, 0)       "day 0"
serial 1..59        -> 1 Jan .. 28 Feb 1900
serial 60           -> (1900, 2, 29)      the leap day that never was
serial 61..2958465  -> 1 Mar 1900 .. 31 Dec 9999 (proleptic Gregorian)
WEEKDAY counts straight through the serial line (serial 1 is a "Sunday")."""
import numpy as np

MAX_SERIAL = 2958465
N_SERIALS = MAX_SERIAL + 1
# anchor: Monday 1 January 2024 is serial 45292 (two more anchors are audited below)
ANCHOR_SERIAL, ANCHOR_DOW = 45292, 0     # dow: 0 = Monday .. 6 = Sunday
MODES = (1, 2, 3, 11, 12, 13, 14, 15, 16, 17)
BAD_MODES = (0, 4, 5, 10, 18, -1)


def _days(y, m, d):
    """days since 0000-03-01 (proleptic Gregorian); works on ints and arrays."""
    y = y - (m <= 2)
    mp = (m + 9) % 12                         # March = 0
    return 365 * y + y // 4 - y // 100 + y // 400 + (153 * mp + 2) // 5 + d - 1


def _civil(n):
    """inverse of _days; ints or arrays."""
    era = n // 146097
    doe = n - era * 146097
    yoe = (doe - doe // 1460 + doe // 36524 - doe // 146096) // 365
    doy = doe - (365 * yoe + yoe // 4 - yoe // 100)
    mp = (5 * doy + 2) // 153
    d = doy - (153 * mp + 2) // 5 + 1
    m = (mp + 2) % 12 + 1
    y = yoe + era * 400 + (m <= 2)
    return y, m, d


_BASE = _days(1899, 12, 30)                   # serial s >= 61 is _BASE + s


def ymd(serial):
    """(year, month, day) Excel shows for an integer serial, None outside 0..MAX."""
    if not 0 <= serial <= MAX_SERIAL:
        return None
    if serial == 0:
        return 1900, 1, 0
    if serial == 60:
        return 1900, 2, 29
    y, m, d = _civil(_BASE + serial + (serial < 60))
    return int(y), int(m), int(d)


def ymd_np(serials):
    s = np.asarray(serials, np.int64)
    y, m, d = _civil(_BASE + s + (s < 60))
    z, f = s == 0, s == 60
    y = np.where(z | f, 1900, y)
    m = np.where(z, 1, np.where(f, 2, m))
    d = np.where(z, 0, np.where(f, 29, d))
    return y, m, d


def month_len(y, m):
    """Excel's month lengths: February 1900 has 29 days."""
    if m == 2:
        return 29 if (y == 1900 or (y % 4 == 0 and (y % 100 != 0 or y % 400 == 0))) else 28
    return 30 if m in (4, 6, 9, 11) else 31


def serial(y, m, d):
    """serial of a *valid* Excel date (incl. 1900-01-00 and 1900-02-29)."""
    if (y, m, d) == (1900, 1, 0):
        return 0
    if (y, m, d) == (1900, 2, 29):
        return 60
    s = _days(y, m, d) - _BASE
    return s - (s <= 60)


def first_of_month_serials():
    """serials of the first day of every month 1900-01 .. 9999-12."""
    return [serial(y, m, 1) for y in range(1900, 10000) for m in range(1, 13)]


def dow_np(serials):
    """0 = Monday .. 6 = Sunday, by counting from the anchor along the serial line."""
    return (np.asarray(serials, np.int64) - ANCHOR_SERIAL + ANCHOR_DOW) % 7


def weekday_np(serials, mode):
    k = dow_np(serials)
    if mode == 1:
        return (k + 1) % 7 + 1        # Sunday = 1
    if mode == 2:
        return k + 1                  # Monday = 1
    if mode == 3:
        return k                      # Monday = 0
    if 11 <= mode <= 17:
        return (k - (mode - 11)) % 7 + 1   # 11: Monday = 1, 12: Tuesday = 1, ...
    raise ValueError(mode)


def weekday(s, mode):
    return int(weekday_np([s], mode)[0])


def self_audit():
    """The reference against two other calendars (numpy datetime64, Python
    datetime) and against fixed facts.  Raises AssertionError when wrong."""
    import datetime
    s = np.arange(61, N_SERIALS, dtype=np.int64)
    y, m, d = ymd_np(s)
    dt = np.datetime64('1899-12-30') + s.astype('timedelta64[D]')
    Y = dt.astype('datetime64[Y]').astype(np.int64) + 1970
    M = dt.astype('datetime64[M]').astype(np.int64) % 12 + 1
    D = (dt - dt.astype('datetime64[M]')).astype(np.int64) + 1
    assert (y == Y).all() and (m == M).all() and (d == D).all(), 'ymd_np vs datetime64'
    assert (dow_np(s) == (dt.astype(np.int64) + 3) % 7).all(), 'dow vs datetime64'   # 1970-01-01 is a Thursday
    for k in list(range(0, N_SERIALS, 4999)) + [0, 1, 31, 32, 59, 60, 61, 62, 366, 367, MAX_SERIAL]:
        t = ymd(k)
        assert t == tuple(int(v[0]) for v in ymd_np([k])), k
        assert serial(*t) == k, k
        if k > 60:
            p = datetime.date(1899, 12, 30) + datetime.timedelta(days=k)
            assert t == (p.year, p.month, p.day) and p.weekday() == int(dow_np([k])[0]), k
        elif 0 < k < 60:
            p = datetime.date(1899, 12, 31) + datetime.timedelta(days=k)
            assert t == (p.year, p.month, p.day), k
    facts = {0: (1900, 1, 0), 1: (1900, 1, 1), 59: (1900, 2, 28), 60: (1900, 2, 29), 61: (1900, 3, 1),
             366: (1900, 12, 31), 367: (1901, 1, 1), 1987: (1905, 6, 9), 36526: (2000, 1, 1),
             45292: (2024, 1, 1), 25569: (1970, 1, 1), MAX_SERIAL: (9999, 12, 31)}
    for k, t in facts.items():
        assert ymd(k) == t and serial(*t) == k, (k, t)
    assert ymd(-1) is None and ymd(MAX_SERIAL + 1) is None
    # weekdays Excel shows (test.xlsx: WEEKDAY(1987)=6, (8)=1, (1)=1, (0)=7); 2000-01-01 was a Saturday
    assert [weekday(k, 1) for k in (1987, 8, 1, 0, 36526, 60, 61)] == [6, 1, 1, 7, 7, 4, 5]
    assert [weekday(36526, md) for md in MODES] == [7, 6, 5, 6, 5, 4, 3, 2, 1, 7]
    fm = first_of_month_serials()
    assert len(fm) == 97200 and fm[:4] == [1, 32, 61, 92] and fm[-1] == MAX_SERIAL - 30
    assert sum(month_len(1900, k) for k in range(1, 13)) == 366 and month_len(2100, 2) == 28 and month_len(2000, 2) == 29
    return True
