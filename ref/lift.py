"""Reference lifting (Excel broadcasting) and fit-to-range rules (C05).
Independent of the code under test.  A value is either a scalar (any reference
value tuple, see ref/values.py) or a matrix: a non-empty list of equal-length
non-empty lists of scalars.  A shape is 'S' (scalar) or (rows, cols)."""
import itertools

NA = ('e', '#N/A')


def is_matrix(v):
    return isinstance(v, list)


def shape_of(v):
    return (len(v), len(v[0])) if is_matrix(v) else 'S'


def shapes(maxdim):
    """scalar, 1xn, mx1, mxn with m, n <= maxdim (1x1 is an array, not a scalar)."""
    return ['S'] + [(m, n) for m in range(1, maxdim + 1) for n in range(1, maxdim + 1)]


def shape_name(s):
    return 'S' if s == 'S' else '%dx%d' % s


def parse_shape(s):
    return 'S' if s == 'S' else tuple(int(x) for x in s.split('x'))


def shape_class(s):
    if s == 'S':
        return 'scalar'
    m, n = s
    return '1x1' if m == n == 1 else 'row' if m == 1 else 'col' if n == 1 else 'mat'


def broadcast_shape(shps):
    """Shape of the lifted result, or None when the shapes are not
    stretch-compatible (two different extents > 1 along one dimension: the
    statement does not cover that, DESIGN.md 3.1).  All scalars -> 'S'."""
    arr = [s for s in shps if s != 'S']
    if not arr:
        return 'S'
    out = []
    for d in (0, 1):
        ext = {s[d] for s in arr if s[d] > 1}
        if len(ext) > 1:
            return None
        out.append(ext.pop() if ext else 1)
    return tuple(out)


def compatible(maxdim, arity):
    """Every stretch-compatible combination of `arity` shapes."""
    for combo in itertools.product(shapes(maxdim), repeat=arity):
        if broadcast_shape(combo) is not None:
            yield combo


def pick(v, i, j):
    """Element of v that Excel pairs with result position (i, j): a scalar, a
    single row and a single column stretch."""
    if not is_matrix(v):
        return v
    return v[i if len(v) > 1 else 0][j if len(v[0]) > 1 else 0]


def lift(f, args):
    """Position by position the scalar result f(e1, ..., ek) for the
    corresponding elements.  Returns a scalar when every argument is scalar."""
    s = broadcast_shape([shape_of(a) for a in args])
    if s is None:
        raise ValueError('not stretch-compatible')
    if s == 'S':
        return f(*args)
    return [[f(*(pick(a, i, j) for a in args)) for j in range(s[1])] for i in range(s[0])]


def fit(res, r, c):
    """Storing `res` into an r x c cell range: a scalar (or 1x1 array) fills it,
    a single row repeats down, a single column repeats across, surplus elements
    are dropped, cells the result does not reach receive #N/A."""
    if not is_matrix(res):
        return [[res] * c for _ in range(r)]
    m, n = len(res), len(res[0])
    out = []
    for i in range(r):
        row = []
        for j in range(c):
            ii = 0 if m == 1 else i
            jj = 0 if n == 1 else j
            row.append(res[ii][jj] if ii < m and jj < n else NA)
        out.append(row)
    return out


# ---------------------------------------------------------------------------
# Audit of the two rules above against Excel itself (DESIGN.md 3.2): every
# array formula of test.xlsx whose form is understood is recomputed as
# fit(lift(...)) from values *Excel* cached - the element results are looked up
# in the sheet's own scalar sibling formulas (=ABS(B3) for element B3 of
# =ABS(B3:P3)) - and compared with what Excel stored in the destination cells.
CORPUS = '/repo/test/test_files/test.xlsx'
_OPS = ['<>', '<=', '>=', '+', '-', '*', '/', '^', '&', '=', '<', '>']


def _norm(s):
    import re
    out = []
    for i, part in enumerate(s.split('"')):
        out.append(part if i % 2 else re.sub(r'[\s$]|_XLFN\.|_XLWS\.', '', part.upper()))
    return '"'.join(out)


def _split(s, seps):
    """Split at top level (outside quotes, braces, parentheses)."""
    out, cur, depth, q = [], '', 0, False
    for ch in s:
        if ch == '"':
            q = not q
        if not q:
            depth += ch in '({'
            depth -= ch in ')}'
            if depth == 0 and ch in seps:
                out.append(cur)
                cur = ''
                continue
        cur += ch
    return out + [cur]


def _const(s):
    import re
    if re.fullmatch(r'-?\d+(\.\d+)?', s):
        return float(s)
    if re.fullmatch(r'"[^"]*"', s):
        return s[1:-1]
    if s in ('TRUE', 'FALSE'):
        return s == 'TRUE'
    if s in ('#N/A', '#DIV/0!', '#VALUE!', '#REF!', '#NAME?', '#NUM!', '#NULL!'):
        return s
    raise ValueError(s)


def _arg(s):
    """-> scalar symbol or matrix of symbols; a symbol is ('cell', 'B3') or ('const', text)."""
    import re
    from openpyxl.utils.cell import range_boundaries, get_column_letter
    if re.fullmatch(r'[A-Z]{1,3}\d+', s):
        return ('cell', s)
    if re.fullmatch(r'[A-Z]{1,3}\d+:[A-Z]{1,3}\d+', s):
        c1, r1, c2, r2 = range_boundaries(s)
        return [[('cell', '%s%d' % (get_column_letter(c), r)) for c in range(c1, c2 + 1)] for r in range(r1, r2 + 1)]
    if s.startswith('{') and s.endswith('}'):
        m = [[x for x in _split(row, ',')] for row in _split(s[1:-1], ';')]
        for row in m:
            for x in row:
                _const(x)
        return [[('const', x) for x in row] for row in m]
    _const(s)
    return ('const', s)


def _parse(text):
    """-> (kind, name, args) with kind in id/call/bin/una, or None when the form is not understood."""
    import re
    s = _norm(text)[1:]
    try:
        m = re.fullmatch(r'([A-Z][A-Z0-9.]*)\((.*)\)', s)
        if m and _split(s, ',+-*/^&=<>') == [s]:
            return ('call', m.group(1), [_arg(a) for a in _split(m.group(2), ',')] if m.group(2) else [])
        for op in _OPS:
            parts = _split(s, op[0])
            if len(op) == 2:
                parts = s.split(op) if s.count(op) == 1 and '"' not in s and '{' not in s else [s]
            if len(parts) == 2 and parts[0] and parts[1] and not any(parts[1].startswith(o[1:]) for o in _OPS if len(o) == 2 and o[0] == op):
                return ('bin', op, [_arg(parts[0]), _arg(parts[1])])
        if s[0] in '+-':
            return ('una', s[0], [_arg(s[1:])])
        if s.endswith('%'):
            return ('una', '%', [_arg(s[:-1])])
        return ('id', '', [_arg(s)])
    except ValueError:
        return None


def _same_excel(a, b):
    if isinstance(a, bool) or isinstance(b, bool) or isinstance(a, str) or isinstance(b, str):
        return type(a) == type(b) and a == b
    return a == b or abs(a - b) <= 1e-12 * max(abs(a), abs(b))


def audit(elementwise, pad_ok=(), path=CORPUS):
    """elementwise: {name: set of arities} of the functions / operators ('u-' 'u+' '%'
    for the unary ones) the check lifts - only calls with that many arguments
    are audited (Excel treats *omitted* optional arguments of IF specially in
    array mode: LOGICAL!AF11); pad_ok: names for which cells beyond the result
    may hold f(#N/A)."""
    import openpyxl
    from openpyxl.worksheet.formula import ArrayFormula
    from openpyxl.utils.cell import range_boundaries
    wf, wv = openpyxl.load_workbook(path), openpyxl.load_workbook(path, data_only=True)
    rep = {'array_formulas': 0, 'understood': 0, 'cells_audited': 0, 'cells_beyond_result': 0, 'cells_without_sibling': 0,
           'multi_row_destinations': 0, 'functions': set(), 'disagreements': []}
    for ws in wf:
        vs, sib, arrays = wv[ws.title], {}, []
        for row in ws.iter_rows():
            for c in row:
                if isinstance(c.value, ArrayFormula):
                    arrays.append((c.value.ref, c.value.text))
                elif isinstance(c.value, str) and c.value.startswith('='):
                    sib.setdefault(_norm(c.value), vs[c.coordinate].value)

        def cached(sym):
            if sym[0] == 'const':
                return _const(sym[1])
            v = vs[sym[1]].value
            return 0 if v is None else v      # a blank shows as 0 when it is a formula's result

        for ref, text in arrays:
            rep['array_formulas'] += 1
            p = _parse(text)
            if p is None:
                continue
            kind, name, args = p
            key = {'una': {'-': 'u-', '+': 'u+', '%': '%'}.get(name)}.get(kind, name)
            if kind == 'id':
                f = lambda e: ('val', cached(e))
            elif kind == 'call' and name in ('ROW', 'COLUMN') and len(args) == 1 and is_matrix(args[0]):
                c1, r1, c2, r2 = range_boundaries('%s:%s' % (args[0][0][0][1], args[0][-1][-1][1]))
                args = [[[('const', str(r))] for r in range(r1, r2 + 1)] if name == 'ROW' else [[('const', str(c)) for c in range(c1, c2 + 1)]]]
                f = lambda e: ('val', cached(e))
            elif len(args) in elementwise.get(key, ()):
                if kind == 'call':
                    f = lambda *e: ('sib', '=%s(%s)' % (name, ','.join(x[1] for x in e)))
                elif kind == 'bin':
                    f = lambda a, b: ('sib', '=%s%s%s' % (a[1], name, b[1]))
                else:
                    f = lambda a: ('sib', '=%s%%' % a[1] if name == '%' else '=%s%s' % (name, a[1]))
            else:
                continue
            if broadcast_shape([shape_of(a) for a in args]) is None:
                continue
            rep['understood'] += 1
            rep['functions'].add(key or kind)
            c1, r1, c2, r2 = range_boundaries(ref)
            rep['multi_row_destinations'] += r2 > r1
            fitted = fit(lift(f, args), r2 - r1 + 1, c2 - c1 + 1)
            for i, row in enumerate(fitted):
                for j, e in enumerate(row):
                    got = vs.cell(r1 + i, c1 + j).value
                    if e == NA:
                        rep['cells_beyond_result'] += 1
                        ok = got == '#N/A' or (key in pad_ok and isinstance(got, bool))
                    elif e[0] == 'sib' and e[1] not in sib:
                        rep['cells_without_sibling'] += 1
                        continue
                    else:
                        want = e[1] if e[0] == 'val' else sib[e[1]]
                        ok = _same_excel(0 if got is None else got, 0 if want is None else want)
                    rep['cells_audited'] += 1
                    if not ok:
                        rep['disagreements'].append('%s!%s %s cell(%d,%d): Excel %r, oracle %r' % (ws.title, ref, text, i, j, got, e))
    rep['functions'] = sorted(rep['functions'])
    return rep
